"""
Symbolic scalars that travel through the real chi code inside NumPy object
arrays, and the re-execution path explorer that forks on their truth values.
"""
import math
import numbers
from fractions import Fraction

import numpy as np

from . import terms as T


class PathAbort(BaseException):
    """Steers the explorer; deliberately not an Exception (chi catches those)."""


class Incomplete(BaseException):
    """An exploration bound was hit or the solver answered unknown."""


class Uninit(object):
    """Absorbing taint for np.empty cells."""
    _inst = None

    def __new__(cls):
        if cls._inst is None:
            cls._inst = object.__new__(cls)
        return cls._inst

    def __repr__(self):
        return 'UNINIT'

    def _abs(self, *a, **k):
        return self
    __add__ = __radd__ = __sub__ = __rsub__ = __mul__ = __rmul__ = _abs
    __truediv__ = __rtruediv__ = __pow__ = __rpow__ = __neg__ = _abs
    log = exp = sqrt = conjugate = __abs__ = _abs


UNINIT = Uninit()


def _is_num(x):
    return isinstance(x, (numbers.Real, np.integer, np.floating, np.bool_)) \
        and not isinstance(x, Sym)


def _nonfinite(x):
    return isinstance(x, (float, np.floating)) and (
        math.isinf(x) or math.isnan(x))


class Sym(object):
    """A real number known only symbolically (wraps a terms.Term)."""
    __slots__ = ('t',)

    def __init__(self, t):
        if not isinstance(t, T.Term):
            t = T.const(t)
        self.t = t

    # -- construction helpers
    @staticmethod
    def var(name):
        return Sym(T.var(name))

    @staticmethod
    def lift(x):
        if isinstance(x, Sym):
            return x
        return Sym(T.const(x))

    def is_const(self):
        return self.t.op == 'c'

    def __repr__(self):
        return 'Sym(%s)' % T.show(self.t)

    def __hash__(self):
        return self.t.id

    # concrete views are allowed only for constants: sound, no concretisation
    def _cv(self):
        if self.t.op != 'c':
            raise TypeError(
                'attempt to concretise the symbolic value %r' % self)
        return self.t.args[0]

    def __float__(self):
        return float(self._cv())

    def __int__(self):
        c = self._cv()
        return int(c)

    def __index__(self):
        c = self._cv()
        if c.denominator != 1:
            raise TypeError('non-integer index')
        return int(c)

    def __round__(self, n=None):
        return round(float(self._cv()), n)

    # -- arithmetic
    def _bin(self, other, f, swap=False):
        if isinstance(other, np.ndarray):
            return NotImplemented
        if other is UNINIT:
            return UNINIT
        if isinstance(other, Sym):
            o = other.t
        elif _is_num(other):
            if _nonfinite(other):
                return _extended(self, other, f, swap)
            o = T.const(other)
        else:
            return NotImplemented
        return Sym(f(o, self.t) if swap else f(self.t, o))

    def __add__(self, o):
        return self._bin(o, T.add)

    def __radd__(self, o):
        return self._bin(o, T.add, True)

    def __sub__(self, o):
        return self._bin(o, T.sub)

    def __rsub__(self, o):
        return self._bin(o, T.sub, True)

    def __mul__(self, o):
        return self._bin(o, T.mul)

    def __rmul__(self, o):
        return self._bin(o, T.mul, True)

    def __truediv__(self, o):
        return self._bin(o, T.div)

    def __rtruediv__(self, o):
        return self._bin(o, T.div, True)

    def __neg__(self):
        return Sym(T.neg(self.t))

    def __pos__(self):
        return self

    def __pow__(self, k):
        if isinstance(k, np.ndarray):
            return NotImplemented
        if isinstance(k, Sym):
            if k.t.op != 'c':
                raise NotImplementedError('symbolic exponent')
            k = k.t.args[0]
        if isinstance(k, (bool, np.bool_)):
            k = int(k)
        if isinstance(k, (int, np.integer)):
            return Sym(T.power(self.t, int(k)))
        if isinstance(k, (float, np.floating)):
            fr = Fraction(float(k)).limit_denominator(1000)
            if float(fr) != float(k):
                fr = Fraction(float(k))
            return Sym(T.power(self.t, fr))
        if isinstance(k, Fraction):
            return Sym(T.power(self.t, k))
        return NotImplemented

    def __rpow__(self, base):
        # base ** self  = exp(self * log(base))
        if isinstance(base, np.ndarray):
            return NotImplemented
        if self.t.op == 'c':
            return Sym.lift(base) ** self.t.args[0]
        b = Sym.lift(base)
        return Sym(T.fn('exp', T.mul(self.t, T.fn('log', b.t))))

    def __abs__(self):
        if self.t.op == 'c':
            return Sym(T.const(abs(self.t.args[0])))
        return Sym(T.ite(T.le(T.ZERO, self.t), self.t, T.neg(self.t)))

    def __floordiv__(self, o):
        # Python floor division: forked over feasible integer values
        q = self / o
        if isinstance(q, Sym) and q.t.op == 'c':
            return Sym(T.const(math.floor(q.t.args[0])))
        return sym_floor(q)

    def __rfloordiv__(self, o):
        return Sym.lift(o) // self

    # -- numpy object-loop hooks
    def log(self):
        if self.t.op == 'c' and self.t.args[0] == 1:
            return Sym(T.ZERO)
        note_domain('log', self.t)
        return Sym(T.fn('log', self.t))

    def exp(self):
        return Sym(T.fn('exp', self.t))

    def sqrt(self):
        note_domain('sqrt', self.t)
        return Sym(T.fn('sqrt', self.t))

    def conjugate(self):
        return self

    @property
    def real(self):
        return self

    @property
    def imag(self):
        return Sym(T.ZERO)

    # -- comparisons
    def _cmp(self, other, f, swap=False):
        if isinstance(other, np.ndarray):
            return NotImplemented
        if isinstance(other, Sym):
            o = other.t
        elif _is_num(other):
            if _nonfinite(other):
                return _extended_cmp(self, other, f, swap)
            o = T.const(other)
        elif other is None or isinstance(other, str):
            return NotImplemented
        else:
            return NotImplemented
        c = f(o, self.t) if swap else f(self.t, o)
        return mkbool(c)

    def __lt__(self, o):
        return self._cmp(o, T.lt)

    def __le__(self, o):
        return self._cmp(o, T.le)

    def __gt__(self, o):
        return self._cmp(o, T.lt, True)

    def __ge__(self, o):
        return self._cmp(o, T.le, True)

    def __eq__(self, o):
        r = self._cmp(o, T.eq)
        if r is NotImplemented:
            return False
        return r

    def __ne__(self, o):
        r = self._cmp(o, T.eq)
        if r is NotImplemented:
            return True
        if isinstance(r, SymBool):
            return ~r
        return not r

    def __bool__(self):
        if self.t.op == 'c':
            return self.t.args[0] != 0
        return bool(self != 0)


def _extended(s, other, f, swap):
    """Arithmetic of a finite symbolic real with +-inf / nan (float rules)."""
    x = float(other)
    if math.isnan(x):
        return float('nan')
    if f is T.add:
        return x
    if f is T.sub:
        return x if swap else -x
    if f is T.mul:
        if s.t.op == 'c':
            return float(s) * x
        if bool(s > 0):
            return x
        if bool(s < 0):
            return -x
        return float('nan')
    if f is T.div:
        if swap:   # inf / s
            if bool(s > 0):
                return x
            if bool(s < 0):
                return -x
            return float('nan')
        return Sym(T.ZERO)  # s / inf
    raise NotImplementedError


def _extended_cmp(s, other, f, swap):
    x = float(other)
    if math.isnan(x):
        return False
    big = x > 0
    if f is T.eq:
        return False
    # s < inf True ; s < -inf False ; swap: inf < s False; -inf < s True
    if not swap:
        return big
    return not big


class SymBool(object):
    __slots__ = ('c',)

    def __init__(self, c):
        self.c = c

    def __repr__(self):
        return 'SymBool(%s)' % T.show(self.c)

    def __bool__(self):
        return current().decide(self.c)

    def __invert__(self):
        return mkbool(T.lnot(self.c))

    def __and__(self, o):
        if isinstance(o, np.ndarray):
            return NotImplemented
        return mkbool(T.land(self.c, _bterm(o)))

    __rand__ = __and__

    def __or__(self, o):
        if isinstance(o, np.ndarray):
            return NotImplemented
        return mkbool(T.lor(self.c, _bterm(o)))

    __ror__ = __or__

    def __eq__(self, o):
        return bool(self) == bool(o)

    def __hash__(self):
        return self.c.id


def _bterm(o):
    if isinstance(o, SymBool):
        return o.c
    return T.TRUE if bool(o) else T.FALSE


def mkbool(c):
    if c is T.TRUE:
        return True
    if c is T.FALSE:
        return False
    return SymBool(c)


# ---------------------------------------------------------------- context

_CTX = [None]


def current():
    if _CTX[0] is None:
        raise RuntimeError('symbolic branch outside of an exploration')
    return _CTX[0]


def have_ctx():
    return _CTX[0] is not None


def note_domain(kind, t):
    if _CTX[0] is not None:
        _CTX[0].domain.append((kind, t))


class Path(object):
    """One explored path: condition, result (or exception), domain notes."""

    def __init__(self, conds, result, exc, domain, decisions):
        self.conds = conds
        self.result = result
        self.exc = exc
        self.domain = domain
        self.decisions = decisions

    def __repr__(self):
        return 'Path(%d conds, exc=%r)' % (len(self.conds), self.exc)


class Explorer(object):
    """
    Re-execution symbolic exploration of ``fn()``.

    ``assumptions``: list of boolean terms; ``solver``: a decide.Solver.
    Every call of ``decide`` that is not answered from the per-path cache
    consumes one entry of the decision prefix.  Entries whose value was forced
    (only one side feasible) are remembered as such: they are replayed on
    re-execution without a solver call and are not part of the path condition.
    """

    def __init__(self, solver, assumptions=(), max_paths=256,
                 max_decisions=400, floor_cap=6):
        self.solver = solver
        self.assumptions = list(assumptions)
        self.max_paths = max_paths
        self.max_decisions = max_decisions
        self.floor_cap = floor_cap
        self.n_feasibility = 0
        self.incomplete = None

    def decide(self, c):
        known = self._known.get(c.id)
        if known is not None:
            return known
        nc = T.lnot(c)
        known = self._known.get(nc.id)
        if known is not None:
            return not known
        k = self._pos
        if k < len(self._prefix):
            val = self._prefix[k]
            self._pos += 1
            if k in self._forced:
                self._known[c.id] = val
            else:
                self._take(c, val)
            return val
        if len(self._prefix) >= self.max_decisions:
            raise Incomplete('max_decisions reached')
        base = self.assumptions + self.conds
        self.n_feasibility += 2
        rt = self.solver.feasible(base + [c])
        rf = self.solver.feasible(base + [nc])
        if rt == 'unknown' or rf == 'unknown':
            raise Incomplete('feasibility query unknown for %s' % T.show(c))
        if rt == 'sat' and rf == 'sat':
            self._work.append(
                (self._prefix[:k] + [False], set(self._forced)))
            self._prefix.append(True)
            self._pos += 1
            self._take(c, True)
            return True
        if rt == 'sat' or rf == 'sat':
            val = rt == 'sat'
            self._prefix.append(val)
            self._forced.add(k)
            self._pos += 1
            self._known[c.id] = val
            return val
        raise PathAbort('infeasible path')

    def _take(self, c, val):
        self._known[c.id] = val
        self.conds.append(c if val else T.lnot(c))

    def run(self, fn):
        paths = []
        self._work = [([], set())]
        while self._work:
            if len(paths) >= self.max_paths:
                self.incomplete = 'max_paths reached'
                break
            self._prefix, self._forced = self._work.pop()
            self._pos = 0
            self._known = {}
            self.conds = []
            self.domain = []
            prev = _CTX[0]
            _CTX[0] = self
            result = exc = None
            try:
                result = fn()
            except PathAbort:
                continue
            except Incomplete as e:
                self.incomplete = str(e)
                continue
            except Exception as e:  # chi raising is a result
                exc = e
            finally:
                _CTX[0] = prev
            paths.append(Path(list(self.conds), result, exc,
                              list(self.domain), list(self._prefix)))
        return paths


def sym_floor(q):
    """floor(q) for a symbolic q: fork over feasible integer values 0..cap."""
    ctx = current()
    cap = getattr(ctx, 'floor_cap', 6)
    for k in range(0, cap + 1):
        if bool((q >= k) & (q < k + 1)):
            return Sym(T.const(k))
    for k in range(-1, -cap - 1, -1):
        if bool((q >= k) & (q < k + 1)):
            return Sym(T.const(k))
    raise Incomplete('floor outside the cap of %d' % cap)


def sym_int(x):
    """int(x): truncation towards zero, forked."""
    if not isinstance(x, Sym):
        return int(x)
    if x.t.op == 'c':
        return int(x.t.args[0])
    if bool(x >= 0):
        return int(sym_floor(x))
    return -int(sym_floor(-x))


def sym_float(x):
    if isinstance(x, Sym):
        return x
    return float(x)
