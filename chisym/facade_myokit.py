"""
Stand-in for the ``myokit`` global of chi modules: everything is the real
myokit (model classes, SBML import, expression trees) except

* ``myokit.Simulation`` (needs sundials, absent here): records how chi binds
  vector entries to states / constants / protocol / sensitivity requests and
  returns the *uninterpreted solution functional*
  ``F[model|output|t](state inits..., literal constants..., protocol fields...)``
  -- the only contract assumed is that the result is a function of exactly
  what was handed to the solver;
* ``myokit.Protocol`` / ``myokit.pacing.blocktrain``: a pure record of
  ``(level, start, duration, period, multiplier)`` whose fields may be
  symbolic, with myokit's documented event semantics.

Like the real class the stub clones the model, exposes ``_model``, and raises
on a state vector of the wrong length, an unknown constant, or an unknown
logged / sensitivity variable.
"""
import hashlib

import myokit as _myokit
import numpy as _np

from .sym import Sym

_BACKEND = [None]


def set_backend(B):
    _BACKEND[0] = B


def backend():
    return _BACKEND[0]


def model_sig(model):
    return hashlib.sha1(model.code().encode()).hexdigest()[:8]


class Event(object):
    def __init__(self, level, start, duration, period=0, multiplier=0):
        self._f = (level, start, duration, period, multiplier)

    def level(self):
        return self._f[0]

    def start(self):
        return self._f[1]

    def duration(self):
        return self._f[2]

    def period(self):
        return self._f[3]

    def multiplier(self):
        return self._f[4]

    def fields(self):
        return self._f


class Protocol(object):
    """myokit.Protocol look-alike (subset used by chi)."""

    def __init__(self):
        self._events = []

    def schedule(self, level, start, duration, period=0, multiplier=0):
        self._events.append(Event(level, start, duration, period,
                                  int(multiplier)))

    def add(self, e):
        self._events.append(e)

    def events(self):
        return list(self._events)

    def clone(self):
        p = Protocol()
        p._events = list(self._events)
        return p

    def __deepcopy__(self, memo):
        return self.clone()

    def key(self):
        return tuple(e.fields() for e in self._events)


class _Pacing(object):
    @staticmethod
    def blocktrain(period, duration, offset=0, level=1.0, limit=0):
        p = Protocol()
        p.schedule(level, offset, duration, period, limit)
        return p


def protocol_args(protocol):
    """(name part, argument list) describing a protocol in F"""
    if protocol is None or len(protocol.events()) == 0:
        # myokit: without a protocol, and with a protocol without events, the
        # pacing variable is 0 at all times -- the same simulated system
        return 'noprot', []
    args = []
    mult = []
    for e in protocol.events():
        level, start, duration, period, m = e.fields()
        args += [level, start, duration, period]
        mult.append(str(m))
    return 'prot(%s)' % ','.join(mult), args


class Simulation(object):
    count = 0

    def __init__(self, model, protocol=None, sensitivities=None):
        Simulation.count += 1
        self._model = model.clone()
        self._sig = model_sig(self._model)
        self._protocol = protocol
        self._states = [v.qname() for v in self._model.states()]
        self._consts = sorted(
            v.qname() for v in self._model.variables(const=True)
            if v.is_literal())
        self._default_state = list(
            self._model.initial_values(as_floats=True))
        self._state = list(self._default_state)
        self._const_values = {}
        self.calls = []
        self._sens = None
        if sensitivities is not None:
            outs, pars = sensitivities
            outs = [str(o) for o in outs]
            for o in outs:
                self._model.get(o)     # raises KeyError like myokit
            idx = []
            for p in pars:
                p = str(p)
                if p.startswith('init(') and p.endswith(')'):
                    q = p[5:-1]
                    if q not in self._states:
                        raise ValueError(
                            'Sensitivity w.r.t. unknown state %s' % p)
                    idx.append(self._states.index(q))
                else:
                    if p not in self._consts:
                        raise ValueError(
                            'Sensitivity w.r.t. unknown / non-literal '
                            'variable %s' % p)
                    idx.append(len(self._states) + self._consts.index(p))
            self._sens = (outs, idx, [str(p) for p in pars])

    # -- myokit API used by chi ---------------------------------------------
    def reset(self):
        self.calls.append(('reset',))
        self._state = list(self._default_state)

    def set_state(self, state):
        state = list(state)
        if len(state) != len(self._states):
            raise ValueError('Wrong number of state values.')
        self.calls.append(('set_state',))
        self._state = state

    def set_constant(self, var, value):
        name = var if isinstance(var, str) else var.qname()
        if name not in self._consts:
            raise ValueError('Unknown or non-literal constant %s' % name)
        self.calls.append(('set_constant', name))
        self._const_values[name] = value

    def set_protocol(self, protocol):
        self.calls.append(('set_protocol',))
        self._protocol = protocol

    def args(self):
        out = list(self._state)
        for c in self._consts:
            if c in self._const_values:
                out.append(self._const_values[c])
            else:
                out.append(float(self._model.get(c).rhs().eval()))
        pname, pargs = protocol_args(self._protocol)
        return pname, out + list(pargs)

    def fname(self, output, t, pname):
        return 'F[%s|%s|%r|%s]' % (self._sig, output, round(float(t), 9),
                                   pname)

    def run(self, duration, log=None, log_times=None):
        B = backend()
        log = [str(n) for n in log]
        for n in log:
            self._model.get(n)
        self.calls.append(('run', tuple(log), len(log_times)))
        pname, args = self.args()
        out = {}
        for n in log:
            out[n] = [B.uf(self.fname(n, t, pname), *args)
                      for t in log_times]
        if self._sens is None:
            return out
        outs, idx, _ = self._sens
        sens = []
        for t in log_times:
            row = []
            for o in outs:
                row.append([B.uf('D%d:%s' % (j, self.fname(o, t, pname)),
                                 *args) for j in idx])
            sens.append(row)
        return out, sens


class MyokitFacade(object):
    Simulation = Simulation
    Protocol = Protocol
    ProtocolEvent = Event
    pacing = _Pacing()

    def __getattr__(self, name):
        return getattr(_myokit, name)
