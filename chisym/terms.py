"""
Hash-consed real/boolean terms: the values that flow through the real chi code.

A ``Term`` is an immutable node ``(op, args)``; identical structure is shared,
so syntactic identity is pointer identity.  Real ops:

    c  (Fraction)          constant
    v  (name)              variable
    +  -  *  /  neg        arithmetic
    ^  (base, int k)       integer power
    f  (name, *args)       function application (log, exp, sqrt, erf and the
                           uninterpreted solution / prior / density symbols)
    ite (cond, a, b)

Boolean ops: < <= == not and or true false.

Nothing here talks to a solver: see decide.py for the SMT encoding.
"""
from fractions import Fraction
import math

_TABLE = {}
_COUNTER = [0]


class Term(object):
    __slots__ = ('op', 'args', 'id', '__weakref__')

    def __init__(self, op, args, ident):
        self.op = op
        self.args = args
        self.id = ident

    def __repr__(self):
        return show(self)

    def __hash__(self):
        return self.id

    def __eq__(self, other):
        return self is other

    def __ne__(self, other):
        return self is not other

    def __reduce__(self):
        return (_rebuild, (self.op, tuple(self.args)))


def _rebuild(op, args):
    return mk(op, *args)


def mk(op, *args):
    key = (op,) + tuple(a.id if isinstance(a, Term) else ('#', a) for a in args)
    t = _TABLE.get(key)
    if t is None:
        _COUNTER[0] += 1
        t = Term(op, args, _COUNTER[0])
        _TABLE[key] = t
    return t


def reset_table():
    """Forget all terms (used between independent harness processes only)."""
    _TABLE.clear()


# ---------------------------------------------------------------- constants

def const(x):
    if isinstance(x, Fraction):
        return mk('c', x)
    if isinstance(x, bool):
        return mk('c', Fraction(int(x)))
    if isinstance(x, int):
        return mk('c', Fraction(x))
    if isinstance(x, float):
        if math.isnan(x) or math.isinf(x):
            raise ValueError('non-finite constant %r' % x)
        return mk('c', Fraction(x))
    # numpy scalars
    try:
        import numpy as _np
        if isinstance(x, _np.bool_):
            return mk('c', Fraction(int(x)))
        if isinstance(x, _np.integer):
            return mk('c', Fraction(int(x)))
        if isinstance(x, _np.floating):
            return const(float(x))
    except ImportError:  # pragma: no cover
        pass
    raise TypeError('cannot make a constant from %r' % (x,))


ZERO = const(0)
ONE = const(1)
TWO = const(2)
HALF = const(Fraction(1, 2))
TRUE = mk('true')
FALSE = mk('false')


def var(name):
    return mk('v', name)


def is_const(t):
    return t.op == 'c'


def cval(t):
    return t.args[0]


# ---------------------------------------------------------------- arithmetic

def add(a, b):
    if a.op == 'c' and b.op == 'c':
        return const(a.args[0] + b.args[0])
    if a is ZERO:
        return b
    if b is ZERO:
        return a
    return mk('+', a, b)


def sub(a, b):
    if a.op == 'c' and b.op == 'c':
        return const(a.args[0] - b.args[0])
    if b is ZERO:
        return a
    if a is ZERO:
        return neg(b)
    if a is b:
        return ZERO
    return mk('-', a, b)


def neg(a):
    if a.op == 'c':
        return const(-a.args[0])
    if a.op == 'neg':
        return a.args[0]
    return mk('neg', a)


def mul(a, b):
    if a.op == 'c' and b.op == 'c':
        return const(a.args[0] * b.args[0])
    if a is ZERO or b is ZERO:
        return ZERO
    if a is ONE:
        return b
    if b is ONE:
        return a
    if a.op == 'c' and a.args[0] == -1:
        return neg(b)
    if b.op == 'c' and b.args[0] == -1:
        return neg(a)
    if a is b:
        return power(a, 2)
    return mk('*', a, b)


def div(a, b):
    if b.op == 'c':
        if b.args[0] == 0:
            raise ZeroDivisionError('symbolic division by the constant 0')
        if a.op == 'c':
            return const(a.args[0] / b.args[0])
        if b is ONE:
            return a
    if a is ZERO:
        return ZERO
    return mk('/', a, b)


def power(a, k):
    """a ** k for a Python int / Fraction k."""
    if isinstance(k, Fraction) and k.denominator == 1:
        k = int(k)
    if isinstance(k, int):
        if k == 0:
            return ONE
        if k == 1:
            return a
        if a.op == 'c':
            return const(a.args[0] ** k)
        if k < 0:
            return div(ONE, power(a, -k))
        return mk('^', a, k)
    if isinstance(k, Fraction):
        if k == Fraction(1, 2):
            return fn('sqrt', a)
        if k == Fraction(-1, 2):
            return div(ONE, fn('sqrt', a))
        # a^(p/q) = exp(p/q log a) for a > 0 (definedness obligation is the
        # log's)
        return fn('exp', mul(const(k), fn('log', a)))
    raise TypeError('unsupported exponent %r' % (k,))


def fn(name, *args):
    # cheap, unconditional inverse rewrites
    if name == 'log' and args[0].op == 'f' and args[0].args[0] == 'exp':
        return args[0].args[1]
    if name == 'log' and args[0] is ONE:
        return ZERO
    if name == 'exp' and args[0] is ZERO:
        return ONE
    if name == 'sqrt' and args[0].op == 'c':
        c = args[0].args[0]
        if c >= 0:
            n, d = c.numerator, c.denominator
            rn, rd = math.isqrt(n), math.isqrt(d)
            if rn * rn == n and rd * rd == d:
                return const(Fraction(rn, rd))
    if name == 'erf' and args[0] is ZERO:
        return ZERO
    return mk('f', name, *args)


def ite(c, a, b):
    if c is TRUE:
        return a
    if c is FALSE:
        return b
    if a is b:
        return a
    return mk('ite', c, a, b)


# ---------------------------------------------------------------- booleans

def lt(a, b):
    if a.op == 'c' and b.op == 'c':
        return TRUE if a.args[0] < b.args[0] else FALSE
    if a is b:
        return FALSE
    return mk('<', a, b)


def le(a, b):
    if a.op == 'c' and b.op == 'c':
        return TRUE if a.args[0] <= b.args[0] else FALSE
    if a is b:
        return TRUE
    return mk('<=', a, b)


def eq(a, b):
    if a.op == 'c' and b.op == 'c':
        return TRUE if a.args[0] == b.args[0] else FALSE
    if a is b:
        return TRUE
    return mk('==', a, b)


def lnot(a):
    if a is TRUE:
        return FALSE
    if a is FALSE:
        return TRUE
    if a.op == 'not':
        return a.args[0]
    return mk('not', a)


def land(*cs):
    out = []
    for c in cs:
        if c is FALSE:
            return FALSE
        if c is TRUE:
            continue
        out.append(c)
    if not out:
        return TRUE
    if len(out) == 1:
        return out[0]
    return mk('and', *out)


def lor(*cs):
    out = []
    for c in cs:
        if c is TRUE:
            return TRUE
        if c is FALSE:
            continue
        out.append(c)
    if not out:
        return FALSE
    if len(out) == 1:
        return out[0]
    return mk('or', *out)


# ---------------------------------------------------------------- traversal

def subterms(roots):
    """All distinct sub-terms of the given roots (post-order)."""
    seen = set()
    order = []
    stack = [(r, False) for r in roots]
    while stack:
        t, done = stack.pop()
        if done:
            order.append(t)
            continue
        if t.id in seen:
            continue
        seen.add(t.id)
        stack.append((t, True))
        for a in t.args:
            if isinstance(a, Term):
                stack.append((a, False))
    return order


def variables(roots):
    return sorted({t.args[0] for t in subterms(roots) if t.op == 'v'})


def size(t):
    return len(subterms([t]))


def show(t, depth=6):
    if t.op == 'c':
        c = t.args[0]
        return str(c.numerator) if c.denominator == 1 else (
            '%s/%s' % (c.numerator, c.denominator)
            if max(abs(c.numerator), c.denominator) < 10**6
            else repr(float(c)))
    if t.op == 'v':
        return t.args[0]
    if depth <= 0:
        return '...'
    d = depth - 1
    if t.op in ('+', '-', '*', '/', '<', '<=', '=='):
        return '(%s %s %s)' % (show(t.args[0], d), t.op, show(t.args[1], d))
    if t.op == 'neg':
        return '-%s' % show(t.args[0], d)
    if t.op == '^':
        return '%s^%d' % (show(t.args[0], d), t.args[1])
    if t.op == 'f':
        return '%s(%s)' % (t.args[0], ', '.join(show(a, d) for a in t.args[1:]))
    if t.op == 'ite':
        return 'ite(%s, %s, %s)' % tuple(show(a, d) for a in t.args)
    if t.op in ('and', 'or'):
        return '(' + (' %s ' % t.op).join(show(a, d) for a in t.args) + ')'
    if t.op == 'not':
        return 'not %s' % show(t.args[0], d)
    return t.op


# ---------------------------------------------------------------- substitution

def substitute(t, mapping, _memo=None):
    """Replace variables (by name) or whole sub-terms (by Term) using mapping."""
    memo = {} if _memo is None else _memo

    def go(u):
        r = memo.get(u.id)
        if r is not None:
            return r
        if u in mapping:
            r = mapping[u]
        elif u.op == 'v' and u.args[0] in mapping:
            r = mapping[u.args[0]]
        elif u.op in ('c', 'v', 'true', 'false'):
            r = u
        else:
            r = rebuild(u, [go(a) if isinstance(a, Term) else a for a in u.args])
        memo[u.id] = r
        return r
    return go(t)


def rebuild(u, args):
    op = u.op
    if op == '+':
        return add(*args)
    if op == '-':
        return sub(*args)
    if op == '*':
        return mul(*args)
    if op == '/':
        return div(*args)
    if op == 'neg':
        return neg(*args)
    if op == '^':
        return power(args[0], args[1])
    if op == 'f':
        return fn(*args)
    if op == 'ite':
        return ite(*args)
    if op == '<':
        return lt(*args)
    if op == '<=':
        return le(*args)
    if op == '==':
        return eq(*args)
    if op == 'not':
        return lnot(*args)
    if op == 'and':
        return land(*args)
    if op == 'or':
        return lor(*args)
    return mk(op, *args)


# ---------------------------------------------------------------- derivative

# Partial derivatives of uninterpreted functions: d/d(arg j) of f(name, args)
# is the application  f('D<j>' + name, args).  Harness stubs that hand chi a
# "sensitivity" use the same naming (see partial()).

def partial(name, j):
    return 'D%d:%s' % (j, name)


PI = var('pi')


def diff(t, x, _memo=None):
    """d t / d x for a variable term x (x.op == 'v')."""
    memo = {} if _memo is None else _memo

    def go(u):
        r = memo.get(u.id)
        if r is not None:
            return r
        op = u.op
        if op == 'c':
            r = ZERO
        elif op == 'v':
            r = ONE if u is x else ZERO
        elif op == '+':
            r = add(go(u.args[0]), go(u.args[1]))
        elif op == '-':
            r = sub(go(u.args[0]), go(u.args[1]))
        elif op == 'neg':
            r = neg(go(u.args[0]))
        elif op == '*':
            a, b = u.args
            r = add(mul(go(a), b), mul(a, go(b)))
        elif op == '/':
            a, b = u.args
            da, db = go(a), go(b)
            if db is ZERO:
                r = div(da, b)
            else:
                r = div(sub(mul(da, b), mul(a, db)), power(b, 2))
        elif op == '^':
            a, k = u.args
            r = mul(mul(const(k), power(a, k - 1)), go(a))
        elif op == 'ite':
            c, a, b = u.args
            r = ite(c, go(a), go(b))
        elif op == 'f':
            name = u.args[0]
            args = u.args[1:]
            if name == 'log':
                r = div(go(args[0]), args[0])
            elif name == 'exp':
                r = mul(go(args[0]), u)
            elif name == 'sqrt':
                r = div(go(args[0]), mul(TWO, u))
            elif name == 'erf':
                # 2/sqrt(pi) exp(-u^2) u'
                r = mul(
                    mul(div(TWO, fn('sqrt', PI)),
                        fn('exp', neg(power(args[0], 2)))),
                    go(args[0]))
            else:
                r = ZERO
                for j, a in enumerate(args):
                    da = go(a)
                    if da is ZERO:
                        continue
                    r = add(r, mul(mk('f', partial(name, j), *args), da))
        else:
            raise TypeError('cannot differentiate %s' % op)
        memo[u.id] = r
        return r
    return go(t)


# ---------------------------------------------------------------- evaluation

class Undefined(Exception):
    pass


def evalf(t, env, fns=None, _memo=None):
    """Evaluate in floats.  env: name -> float, fns: name -> callable."""
    memo = {} if _memo is None else _memo
    fns = fns or {}

    def go(u):
        if u.id in memo:
            return memo[u.id]
        op = u.op
        if op == 'c':
            r = float(u.args[0])
        elif op == 'v':
            if u.args[0] == 'pi' and 'pi' not in env:
                r = math.pi
            else:
                r = env[u.args[0]]
        elif op == '+':
            r = go(u.args[0]) + go(u.args[1])
        elif op == '-':
            r = go(u.args[0]) - go(u.args[1])
        elif op == 'neg':
            r = -go(u.args[0])
        elif op == '*':
            r = go(u.args[0]) * go(u.args[1])
        elif op == '/':
            d = go(u.args[1])
            if d == 0:
                raise Undefined('division by zero')
            r = go(u.args[0]) / d
        elif op == '^':
            r = go(u.args[0]) ** u.args[1]
        elif op == 'ite':
            r = go(u.args[1]) if go(u.args[0]) else go(u.args[2])
        elif op == 'f':
            name = u.args[0]
            vals = [go(a) for a in u.args[1:]]
            if name == 'log':
                if vals[0] <= 0:
                    raise Undefined('log of non-positive')
                r = math.log(vals[0])
            elif name == 'exp':
                r = math.exp(vals[0])
            elif name == 'sqrt':
                if vals[0] < 0:
                    raise Undefined('sqrt of negative')
                r = math.sqrt(vals[0])
            elif name == 'erf':
                r = math.erf(vals[0])
            else:
                r = fns[name](*vals) if name in fns else fns['*'](name, *vals)
        elif op == '<':
            r = go(u.args[0]) < go(u.args[1])
        elif op == '<=':
            r = go(u.args[0]) <= go(u.args[1])
        elif op == '==':
            r = go(u.args[0]) == go(u.args[1])
        elif op == 'not':
            r = not go(u.args[0])
        elif op == 'and':
            r = all(go(a) for a in u.args)
        elif op == 'or':
            r = any(go(a) for a in u.args)
        elif op == 'true':
            r = True
        elif op == 'false':
            r = False
        else:
            raise TypeError(op)
        memo[u.id] = r
        return r
    return go(t)
