"""
Stand-in for ``np.random`` (and ``scipy.stats.truncnorm``) inside chi modules.

Contract modelled (NumPy / SciPy documentation):

* ``default_rng(int s)`` starts the stream ``S(s)``: its k-th standard normal
  draw is the variable ``eps[S(s)|k]`` -- the same seed gives the same
  variables, a different seed different ones;
* ``default_rng(None)`` starts a fresh anonymous stream on every call;
* ``default_rng(generator)`` returns that generator (its counter advances);
* ``Generator.normal(loc, scale, size) = loc + scale * eps``,
  ``lognormal(mean, sigma, size) = exp(mean + sigma * eps)`` with fresh i.i.d.
  standard normal ``eps`` per cell, broadcasting like NumPy;
* ``choice(a, size)``: every cell is an element of ``a`` at a fresh index
  (the explorer forks over the index values);
* ``integers(low, high)``: a fresh symbolic integer;
* ``permutation / shuffle / permuted``: a fresh permutation (the explorer forks
  over it); ``permuted(axis=k)`` shuffles every slice along ``k`` independently;
* the *global* generator is a separate stream whose state is whatever the
  harness says it is (``set_global``) until ``np.random.seed(s)`` replaces it
  by ``G(s)``; ``truncnorm.rvs(a, b, loc, scale, size) = loc + scale * Z`` with
  ``Z`` a standard normal conditioned on ``[a, b]`` drawn from the global
  generator.
"""
import numpy as _np

from . import terms as T
from .sym import Sym, PathAbort, current


class Draw(object):
    """Book-keeping for one random variable."""
    __slots__ = ('name', 'kind', 'stream', 'index', 'info')

    def __init__(self, name, kind, stream, index, info=None):
        self.name = name
        self.kind = kind
        self.stream = stream
        self.index = index
        self.info = info


def _sid(x):
    if isinstance(x, Sym):
        return T.show(x.t, 3)
    return repr(x)


class Gen(object):
    """A numpy.random.Generator look-alike."""

    def __init__(self, rng, stream):
        self._rng = rng
        self.stream = stream
        self.counter = 0

    def _fresh(self, kind, info=None):
        name = '%s[%s|%d]' % (kind, self.stream, self.counter)
        d = Draw(name, kind, self.stream, self.counter, info)
        self.counter += 1
        self._rng.draws[name] = d
        self._rng.order.append(name)
        return Sym.var(name)

    def _cells(self, size, args):
        if size is None:
            shape = _np.broadcast(*[_np.asarray(a, dtype=object)
                                    for a in args]).shape
        elif isinstance(size, (int, _np.integer)):
            shape = (int(size),)
        else:
            shape = tuple(int(s) for s in size)
        return shape

    def normal(self, loc=0.0, scale=1.0, size=None):
        shape = self._cells(size, (loc, scale))
        eps = _np.empty(shape, dtype=object)
        for idx in _np.ndindex(*shape):
            eps[idx] = self._fresh('eps')
        loc = _np.asarray(loc, dtype=object)
        scale = _np.asarray(scale, dtype=object)
        out = loc + scale * eps
        if shape == ():
            return out[()] if isinstance(out, _np.ndarray) else out
        return out

    def standard_normal(self, size=None):
        return self.normal(0.0, 1.0, size)

    def lognormal(self, mean=0.0, sigma=1.0, size=None):
        z = self.normal(mean, sigma, size)
        if isinstance(z, _np.ndarray):
            out = _np.empty(z.shape, dtype=object)
            for idx in _np.ndindex(*z.shape):
                out[idx] = Sym.lift(z[idx]).exp()
            return out
        return Sym.lift(z).exp()

    def _index(self, n):
        """A fresh index in range(n): forks."""
        u = self._fresh('idx', info=n)
        for k in range(n):
            if bool(u == k):
                return k
        raise PathAbort('index outside range')

    def choice(self, a, size=None, replace=True, p=None):
        if isinstance(a, (int, _np.integer)):
            a = _np.arange(int(a))
        a = _np.asarray(a)
        n = len(a)
        if size is None:
            return a[self._index(n)]
        shape = self._cells(size, ())
        idxs = _np.empty(shape, dtype=int)
        for idx in _np.ndindex(*shape):
            idxs[idx] = self._index(n)
        self._rng.choice_weights.append(p)
        # what was chosen on this path (the harness may ask)
        self._rng.choices.append(([a[i] for i in idxs.flat], p))
        return a[idxs]

    def _perm(self, n):
        """a fresh uniformly distributed permutation of range(n): forks"""
        idx = list(range(n))
        out = []
        for k in range(n):
            out.append(idx.pop(self._index(n - k)))
        return out

    def permutation(self, x, axis=0):
        if isinstance(x, (int, _np.integer)):
            x = _np.arange(int(x))
        a = _np.array(x, copy=True)
        if axis != 0:
            raise NotImplementedError
        return a[self._perm(len(a))]

    def shuffle(self, x, axis=0):
        if axis != 0:
            raise NotImplementedError
        p = self._perm(len(x))
        x[:] = _np.array(x, copy=True)[p]

    def permuted(self, x, axis=None, out=None):
        """NumPy: every slice along ``axis`` is shuffled independently of
        the others (axis=None: the flattened array)"""
        if out is not None:
            raise NotImplementedError
        a = _np.array(x, copy=True)
        if axis is None:
            flat = a.reshape(-1)
            return flat[self._perm(len(flat))].reshape(a.shape)
        b = _np.moveaxis(a, axis, 0).copy()
        n = b.shape[0]
        for idx in _np.ndindex(*b.shape[1:]):
            key = (slice(None),) + idx
            b[key] = b[key][self._perm(n)]
        return _np.moveaxis(b, 0, axis)

    def integers(self, low, high=None, size=None, **k):
        if size is not None:
            raise NotImplementedError
        if high is None:
            low, high = 0, low
        try:
            lo, hi = int(low), int(high)
        except TypeError:
            lo = hi = None
        if lo is not None and hi - lo <= 64:
            # a small range: the value is used as an index -> fork
            return lo + self._index(hi - lo)
        return self._fresh('int', info=(low, high))

    def random(self, size=None):
        shape = self._cells(size, ())
        out = _np.empty(shape, dtype=object)
        for idx in _np.ndindex(*shape):
            out[idx] = self._fresh('unif')
        return out[()] if shape == () else out


class RNG(object):
    """Bound to ``np.random`` in chi modules."""

    def __init__(self):
        self.draws = {}
        self.order = []
        self.choice_weights = []
        self.choices = []
        self._anon = 0
        self.Generator = Gen
        self.global_gen = Gen(self, 'GLOBAL:unset')
        self.global_seed_calls = []

    # harness API ----------------------------------------------------------
    def set_global(self, label):
        """The process-wide generator is in some state called ``label``."""
        self.global_gen = Gen(self, 'GLOBAL:%s' % label)

    def assume_truncation(self, B):
        """documented contract of truncnorm.rvs: every draw lies in [a, b]"""
        import math
        for name in self.order:
            d = self.draws[name]
            if d.kind != 'tz' or getattr(d, 'assumed', False):
                continue
            a, b = d.info
            z = Sym.var(name)
            if not (isinstance(a, float) and math.isinf(a)):
                B.assume(z >= a)
            if not (isinstance(b, float) and math.isinf(b)):
                B.assume(z <= b)

    def mark(self):
        return len(self.order)

    def since(self, mark):
        return self.order[mark:]

    # numpy API ------------------------------------------------------------
    def default_rng(self, seed=None):
        if isinstance(seed, Gen):
            return seed
        if seed is None:
            self._anon += 1
            return Gen(self, 'ANON%d' % self._anon)
        return Gen(self, 'S(%s)' % _sid(seed))

    def seed(self, seed=None):
        self.global_seed_calls.append(seed)
        if seed is None:
            self._anon += 1
            self.global_gen = Gen(self, 'GLOBAL:ANON%d' % self._anon)
        else:
            self.global_gen = Gen(self, 'GLOBAL:S(%s)' % _sid(seed))

    def normal(self, *a, **k):
        return self.global_gen.normal(*a, **k)

    def lognormal(self, *a, **k):
        return self.global_gen.lognormal(*a, **k)

    def choice(self, *a, **k):
        return self.global_gen.choice(*a, **k)

    def randint(self, *a, **k):
        return self.global_gen.integers(*a, **k)


class TruncNorm(object):
    """Bound to ``truncnorm`` in chi._population_models."""

    def __init__(self, rng):
        self._rng = rng
        self.calls = []

    def rvs(self, a, b, loc=0, scale=1, size=None, random_state=None):
        g = self._rng.global_gen
        loc_a = _np.asarray(loc, dtype=object)
        scale_a = _np.asarray(scale, dtype=object)
        if size is None:
            shape = _np.broadcast(loc_a, scale_a).shape
        elif isinstance(size, (int, _np.integer)):
            shape = (int(size),)
        else:
            shape = tuple(int(s) for s in size)
        z = _np.empty(shape, dtype=object)
        a_b = _np.broadcast_to(_np.asarray(a, dtype=object), shape)
        b_b = _np.broadcast_to(_np.asarray(b, dtype=object), shape)
        for idx in _np.ndindex(*shape):
            z[idx] = g._fresh('tz', info=(a_b[idx], b_b[idx]))
        self.calls.append(dict(a=a, b=b, loc=loc, scale=scale, z=z))
        return loc_a + scale_a * z
