"""
Stand-in for ``pandas`` inside chi._problems.

pandas itself carries symbolic payloads in object columns (masks, ``notnull``,
``dropna``, ``iterrows``, ``unique`` and label comparisons are all real
pandas); the one call that rejects them is ``pd.to_numeric``.  For a column
that holds symbolic cells the facade checks the remaining cells with the real
``to_numeric`` (so a non-numeric entry is still rejected) and passes the
column through unchanged; every other column and every other attribute is
delegated to pandas.
"""
import pandas as _pd

from .sym import Sym


class PD(object):
    def __getattr__(self, name):
        return getattr(_pd, name)

    def to_numeric(self, arg, *a, **k):
        if isinstance(arg, _pd.Series) and arg.dtype == object:
            sym = [isinstance(v, Sym) for v in arg]
            if any(sym):
                rest = arg[[not f for f in sym]]
                _pd.to_numeric(rest, *a, **k)
                return arg
        return _pd.to_numeric(arg, *a, **k)
