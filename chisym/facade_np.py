"""
A stand-in for the ``np`` global of chi modules.  Everything is delegated to
the real NumPy except the handful of entry points where float storage or
float-only C loops would reject (or silently concretise) a symbolic value.
"""
import math

import numpy as _np

from . import terms as T
from .sym import Sym, SymBool, UNINIT, _is_num
from .facade_ma import MaskedObj, MA


def _is_int_dtype(dtype):
    if dtype is None:
        return False
    try:
        k = _np.dtype(dtype).kind
    except TypeError:
        return False
    return k in 'biuUSO'


def lift_array(a):
    """Object arrays: numbers -> Sym constants (so that .log() etc. exist)."""
    if isinstance(a, _np.ndarray) and a.dtype == object and a.size:
        it = _np.nditer(a, flags=['refs_ok', 'multi_index'],
                        op_flags=['readwrite'])
        for cell in it:
            v = cell.item()
            if _is_num(v) and not isinstance(v, (bool, _np.bool_)):
                if isinstance(v, (float, _np.floating)) and (
                        math.isinf(v) or math.isnan(v)):
                    continue
                a[it.multi_index] = Sym.lift(v)
    return a


def _has_sym(x):
    if isinstance(x, (Sym, SymBool)):
        return True
    if isinstance(x, _np.ndarray):
        return x.dtype == object
    if isinstance(x, (list, tuple)):
        return any(_has_sym(e) for e in x)
    return False


def _elementwise(f_sym, f_float):
    def g(x, *a, **k):
        if isinstance(x, Sym):
            return f_sym(x)
        if x is UNINIT:
            return UNINIT
        if isinstance(x, MaskedObj):
            return x.map(g)
        if isinstance(x, _np.ndarray) and x.dtype == object:
            out = _np.empty(x.shape, dtype=object)
            it = _np.nditer(x, flags=['refs_ok', 'multi_index']) \
                if x.size else ()
            for cell in it:
                v = cell.item()
                out[it.multi_index] = g(v)
            if isinstance(x, _np.ma.MaskedArray):
                out = _np.ma.array(out, mask=x.mask)
            return out
        if isinstance(x, (list, tuple)) and _has_sym(x):
            return g(_np.asarray(x, dtype=object))
        return f_float(x, *a, **k)
    return g


def _log_num(x, *a, **k):
    """log of a small Python integer stays exact (symbolic log(n))."""
    if isinstance(x, (int, _np.integer)) and not isinstance(x, bool) \
            and 0 < x < 10**6:
        return Sym(T.fn('log', T.const(int(x))))
    return _np.log(x, *a, **k)


def _sqrt_num(x, *a, **k):
    """sqrt of a small Python integer stays exact (symbolic sqrt(2)), so that
    chi's np.sqrt(2) and the reference's sqrt(2) are the same real number."""
    if isinstance(x, int) and not isinstance(x, bool) and 0 <= x < 1000:
        return Sym(T.fn('sqrt', T.const(x)))
    return _np.sqrt(x, *a, **k)


def _predicate(f_sym, f_np, f_py):
    """isnan / isinf / isfinite: a symbolic value is a finite real; the
    result is a genuine bool (array), so that ``~mask`` and mask indexing
    behave as with float arrays."""
    def one(v):
        if isinstance(v, Sym):
            return f_sym(v)
        if v is UNINIT:
            return f_sym(v)
        return bool(f_py(v))

    def g(x, *a, **k):
        if isinstance(x, Sym) or x is UNINIT:
            return one(x)
        if isinstance(x, MaskedObj):
            return g(x.data)
        if isinstance(x, _np.ndarray) and x.dtype == object:
            out = _np.empty(x.shape, dtype=bool)
            for idx in _np.ndindex(*x.shape):
                out[idx] = one(x[idx])
            return out
        if isinstance(x, (list, tuple)) and _has_sym(x):
            return g(_np.asarray(x, dtype=object))
        return f_np(x, *a, **k)
    return g


class SymArray(_np.ndarray):
    """ndarray whose boolean-mask indexing accepts symbolic booleans (they
    are decided, i.e. forked, element by element)."""

    def __getitem__(self, idx):
        idx = _concretise_index(idx)
        return super(SymArray, self).__getitem__(idx)

    def __setitem__(self, idx, val):
        idx = _concretise_index(idx)
        if isinstance(val, _np.ndarray) and val.ndim > 0 and val.size == 1 \
                and isinstance(idx, tuple) and len(idx) == self.ndim and all(
                    isinstance(i, (int, _np.integer)) for i in idx):
            # a float array converts a size-1 array assigned to one cell to
            # its element (an object array would store the array itself)
            val = val.reshape(-1)[0]
        return super(SymArray, self).__setitem__(idx, val)


INT_CELLS = set()


def _trunc_cell(v):
    """what NumPy stores when v is assigned into an array of an integer
    dtype: the value cast to an integer (an uninterpreted ``trunc`` for a
    symbolic real; cells declared integer are kept)"""
    if isinstance(v, Sym):
        if v.t in INT_CELLS:
            return v
        if T.is_const(v.t) and T.cval(v.t).denominator == 1:
            return v
        return Sym(T.mk('f', 'trunc', v.t))
    if v is UNINIT:
        return v
    if isinstance(v, (float, _np.floating)):
        return int(v)
    return v


def _trunc(val):
    if isinstance(val, _np.ndarray):
        out = _np.empty(val.shape, dtype=object)
        for i, e in enumerate(val.flat):
            out.flat[i] = _trunc_cell(e)
        return out
    if isinstance(val, (list, tuple)):
        return _trunc(_np.array(val, dtype=object))
    return _trunc_cell(val)


class SymIntArray(SymArray):
    """Stands for an ndarray of an *integer dtype* whose cells are symbolic
    integers.  Arithmetic on it gives ordinary (real) cells -- exact for
    ``+ - *`` on integers, and what NumPy does for ``/`` and mixed operands
    -- but an assignment into it casts (NumPy truncates silently), and so
    does an array allocated ``*_like`` it."""

    def __array_ufunc__(self, ufunc, method, *inputs, **kwargs):
        # (plain ndarrays: reductions of a subclass give 0-d arrays)
        inputs = tuple(i.view(_np.ndarray) if isinstance(i, SymIntArray)
                       else i for i in inputs)
        return getattr(ufunc, method)(*inputs, **kwargs)

    def __setitem__(self, idx, val):
        return super(SymIntArray, self).__setitem__(idx, _trunc(val))


def int_array(cells):
    """harness API: an integer-dtype array with the given symbolic cells"""
    a = _np.array(cells, dtype=object)
    for e in a.flat:
        if isinstance(e, Sym):
            INT_CELLS.add(e.t)
    return a.view(SymIntArray)


def _like(a, dtype):
    """dtype an array allocated like ``a`` gets: 'int' or None (real)"""
    if dtype is not None:
        return None
    if isinstance(a, SymIntArray):
        return 'symint'
    if isinstance(a, _np.ndarray) and a.dtype.kind in 'biu':
        return 'int'
    return None


def _concretise_index(idx):
    if isinstance(idx, _np.ndarray) and idx.dtype == object and idx.size and \
            all(isinstance(e, (SymBool, bool, _np.bool_)) for e in idx.flat):
        return _np.array([bool(e) for e in idx.flat]).reshape(idx.shape)
    return idx


def boolify(a):
    """Object array of SymBool/bool -> bool array (forks)."""
    if isinstance(a, _np.ndarray) and a.dtype == object:
        return _np.array([bool(e) for e in a.flat], dtype=bool).reshape(a.shape)
    return a


class NP(object):
    """Facade object bound to the name ``np`` inside chi modules."""

    def __init__(self, random=None, pi_symbolic=True, alloc_view=False):
        self.alloc_view = alloc_view
        self.pi = Sym(T.PI) if pi_symbolic else _np.pi
        self.ma = MA()
        if random is not None:
            self.random = random
        self.log = _elementwise(lambda s: s.log(), _log_num)
        self.exp = _elementwise(lambda s: s.exp(), _np.exp)
        self.sqrt = _elementwise(lambda s: s.sqrt(), _sqrt_num)
        self.abs = self.absolute = _elementwise(lambda s: abs(s), _np.abs)
        self.isnan = _predicate(lambda s: False, _np.isnan, math.isnan)
        self.isinf = _predicate(lambda s: False, _np.isinf, math.isinf)
        self.isfinite = _predicate(lambda s: True, _np.isfinite,
                                   math.isfinite)

    def __getattr__(self, name):
        return getattr(_np, name)

    # -- allocation ---------------------------------------------------------
    def _alloc(self, shape, fill, dtype):
        if _is_int_dtype(dtype):
            return None
        a = _np.empty(shape, dtype=object)
        a.fill(fill)
        # (chi._problems assigns size-1 arrays to single cells, which only
        # float arrays -- and SymArray -- convert to their element)
        return a.view(SymArray) if self.alloc_view and a.ndim >= 1 else a

    def zeros(self, shape, dtype=None, **k):
        a = self._alloc(shape, Sym(T.ZERO), dtype)
        return _np.zeros(shape, dtype=dtype, **k) if a is None else a

    def ones(self, shape, dtype=None, **k):
        a = self._alloc(shape, Sym(T.ONE), dtype)
        return _np.ones(shape, dtype=dtype, **k) if a is None else a

    def empty(self, shape, dtype=None, **k):
        a = self._alloc(shape, UNINIT, dtype)
        return _np.empty(shape, dtype=dtype, **k) if a is None else a

    def full(self, shape, fill_value, dtype=None, **k):
        if _is_int_dtype(dtype) or not isinstance(
                fill_value, (Sym,) + (float, int)):
            return _np.full(shape, fill_value, dtype=dtype, **k)
        if isinstance(fill_value, float) and (
                math.isinf(fill_value) or math.isnan(fill_value)):
            return _np.full(shape, fill_value, dtype=dtype, **k)
        return self._alloc(shape, Sym.lift(fill_value), None)

    def _like_alloc(self, real, fill, a, dtype, k):
        like = _like(a, dtype)
        if _is_int_dtype(dtype) or like == 'int':
            # (an integer array stays one: NumPy keeps the dtype of ``a``)
            return real(a, dtype=dtype, **k)
        out = self._alloc(_np.shape(a), fill, None)
        if like == 'symint':
            out = out.view(SymIntArray)
        return out

    def zeros_like(self, a, dtype=None, **k):
        return self._like_alloc(_np.zeros_like, Sym(T.ZERO), a, dtype, k)

    def ones_like(self, a, dtype=None, **k):
        return self._like_alloc(_np.ones_like, Sym(T.ONE), a, dtype, k)

    def empty_like(self, a, dtype=None, **k):
        return self._like_alloc(_np.empty_like, UNINIT, a, dtype, k)

    # -- conversion ---------------------------------------------------------
    def asarray(self, x, dtype=None, **k):
        if isinstance(x, SymIntArray) and dtype is None:
            return x     # (an integer array stays an integer array)
        if _has_sym(x) and not _is_int_dtype(dtype):
            dtype = None
        a = _np.asarray(x, dtype=dtype, **k)
        return lift_array(a) if a.dtype == object and not (
            isinstance(x, _np.ndarray)) else a

    def array(self, x, dtype=None, copy=True, **k):
        if isinstance(x, SymIntArray) and dtype is None:
            return _np.array(x, dtype=object, copy=copy, subok=True)
        if _has_sym(x) and not _is_int_dtype(dtype):
            dtype = None
        a = _np.array(x, dtype=dtype, copy=copy, **k)
        if a.dtype == object and not all(
                isinstance(e, str) for e in a.flat):
            a = lift_array(a)
            if a.ndim >= 1:
                a = a.view(SymArray)
        return a

    def copy(self, a, **k):
        if isinstance(a, SymIntArray):
            k.setdefault('subok', True)
        return _np.copy(a, **k)

    def isclose(self, a, b, rtol=1e-05, atol=1e-08, equal_nan=False):
        """|a - b| <= atol + rtol |b| element-wise; symbolic cells give
        symbolic truth values (decided when used)"""
        if not (_has_sym(a) or _has_sym(b)):
            return _np.isclose(a, b, rtol=rtol, atol=atol,
                               equal_nan=equal_nan)
        aa = _np.asarray(a, dtype=object)
        bb = _np.asarray(b, dtype=object)
        aa, bb = _np.broadcast_arrays(aa, bb)
        out = _np.empty(aa.shape, dtype=object)
        for idx in _np.ndindex(*aa.shape):
            x, y = Sym.lift(aa[idx]), Sym.lift(bb[idx])
            d = abs(x - y)
            out[idx] = d <= abs(y) * rtol + atol
        return out if out.shape else out[()]

    def allclose(self, a, b, rtol=1e-05, atol=1e-08, equal_nan=False):
        if not (_has_sym(a) or _has_sym(b)):
            return _np.allclose(a, b, rtol=rtol, atol=atol,
                                equal_nan=equal_nan)
        if _np.shape(a) != _np.shape(b):
            try:
                _np.broadcast(_np.asarray(a, dtype=object),
                              _np.asarray(b, dtype=object))
            except ValueError:
                return False
        r = self.isclose(a, b, rtol=rtol, atol=atol)
        for e in _np.ravel(_np.asarray(r, dtype=object)):
            if not bool(e):
                return False
        return True

    def array_equal(self, a, b, **k):
        if not (_has_sym(a) or _has_sym(b)):
            return _np.array_equal(a, b, **k)
        if _np.shape(a) != _np.shape(b):
            return False
        for x, y in zip(_np.ravel(_np.asarray(a, dtype=object)),
                        _np.ravel(_np.asarray(b, dtype=object))):
            if not bool(Sym.lift(x) == Sym.lift(y)):
                return False
        return True

    def unique(self, ar, return_index=False, return_inverse=False,
               return_counts=False, axis=None, **k):
        """np.unique for symbolic payloads (NumPy rejects ``axis`` for object
        arrays): values / rows are ordered and grouped by their comparisons,
        each of which is a decision of the explorer."""
        a = ar if isinstance(ar, _np.ndarray) else _np.asarray(ar)
        if a.dtype != object or not any(
                isinstance(e, Sym) for e in a.flat):
            return _np.unique(ar, return_index=return_index,
                              return_inverse=return_inverse,
                              return_counts=return_counts, axis=axis, **k)
        if axis not in (None, 0):
            raise NotImplementedError('np.unique along axis %r on symbolic '
                                      'data' % (axis,))
        if axis is None:
            items = [(e,) for e in a.flat]
        else:
            items = [tuple(_np.ravel(a[i])) for i in range(a.shape[0])]

        def cmp(x, y):
            for u, v in zip(x[1], y[1]):
                if bool(u < v):
                    return -1
                if bool(v < u):
                    return 1
            return 0
        import functools
        order = sorted(enumerate(items), key=functools.cmp_to_key(cmp))
        groups = []
        for idx, it in order:
            if groups and cmp((0, groups[-1][0]), (0, it)) == 0:
                groups[-1][1].append(idx)
            else:
                groups.append((it, [idx]))
        if axis is None:
            vals = _np.array([g[0][0] for g in groups], dtype=object)
        else:
            vals = _np.empty((len(groups),) + a.shape[1:], dtype=object)
            for j, g in enumerate(groups):
                vals[j] = _np.array(g[0], dtype=object).reshape(a.shape[1:])
        out = [vals]
        if return_index:
            out.append(_np.array([min(g[1]) for g in groups]))
        if return_inverse:
            inv = _np.empty(len(items), dtype=int)
            for j, g in enumerate(groups):
                for idx in g[1]:
                    inv[idx] = j
            out.append(inv)
        if return_counts:
            out.append(_np.array([len(g[1]) for g in groups]))
        return out[0] if len(out) == 1 else tuple(out)

    # -- reductions that need truth values -----------------------------------
    def any(self, a, *args, **k):
        if isinstance(a, SymBool):
            return a
        if isinstance(a, _np.ndarray) and a.dtype == object and not args \
                and not k:
            # short-circuit: n + 1 paths instead of 2^n
            for e in a.flat:
                if bool(e):
                    return True
            return False
        return _np.any(a, *args, **k)

    def all(self, a, *args, **k):
        if isinstance(a, SymBool):
            return a
        if isinstance(a, _np.ndarray) and a.dtype == object and not args \
                and not k:
            for e in a.flat:
                if not bool(e):
                    return False
            return True
        return _np.all(a, *args, **k)

    def max(self, a, *args, **k):
        if isinstance(a, MaskedObj):
            return a.max(*args, **k)
        return _np.max(a, *args, **k)

    def sum(self, a, *args, **k):
        if isinstance(a, MaskedObj):
            return a.sum(*args, **k)
        return _np.sum(a, *args, **k)

    def squeeze(self, a, axis=None):
        if isinstance(a, MaskedObj):
            return MaskedObj(_np.squeeze(a.data, axis=axis),
                             _np.squeeze(a.mask, axis=axis))
        return _np.squeeze(a, axis=axis)
