"""
Install / remove the facades: rebinding of module globals of chi inside the
checking process.  No line of /repo is modified.
"""
import builtins
import importlib
import math as _math

import numpy as _np

from . import terms as T
from .sym import Sym, sym_int, sym_float
from .facade_np import NP, lift_array
from .facade_rng import RNG, TruncNorm

CHI_MODULES = [
    'chi._error_models', 'chi._log_pdfs', 'chi._population_models',
    'chi._covariate_models', 'chi._population_filters',
    'chi._mechanistic_models', 'chi._predictive_models', 'chi._inference',
    'chi._problems',
]

_saved = []
_installed = [False]


def installed():
    return _installed[0]


class _Delegate(object):
    def __init__(self, real, **over):
        self.__dict__['_real'] = real
        self.__dict__.update(over)

    def __getattr__(self, name):
        return getattr(self._real, name)


def pints_vector(x):
    a = _np.asarray(x)
    if a.dtype != object:
        import pints
        return pints.vector(x)
    a = _np.array(a, copy=True)
    if a.ndim == 0:
        a = a.reshape((1,))
    if a.ndim != 1:
        n = max(a.shape)
        if _np.prod(a.shape) != n:
            raise ValueError(
                'Unable to convert to 1d vector of scalar values.')
        a = a.reshape((n,))
    lift_array(a)
    a.setflags(write=False)
    return a


class _FloatMeta(type):
    def __instancecheck__(cls, x):
        return isinstance(x, float)

    def __call__(cls, x=0.0):
        return sym_float(x)


class FloatF(metaclass=_FloatMeta):
    """Stands in for the builtin ``float`` inside chi modules: identity on
    symbolic values, the builtin otherwise; isinstance checks still work."""


class _IntMeta(type):
    def __instancecheck__(cls, x):
        return isinstance(x, int)

    def __call__(cls, x=0):
        return sym_int(x)


class IntF(metaclass=_IntMeta):
    pass


class MathFacade(_Delegate):
    pass


def _math_erf(x):
    if isinstance(x, Sym):
        return Sym(T.fn('erf', x.t))
    return _math.erf(x)


def _math_sqrt(x):
    if isinstance(x, Sym):
        return x.sqrt()
    return _math.sqrt(x)


def _math_exp(x):
    if isinstance(x, Sym):
        return x.exp()
    return _math.exp(x)


def _math_log(x):
    if isinstance(x, Sym):
        return x.log()
    return _math.log(x)


def _erf_any(x):
    if isinstance(x, Sym):
        return Sym(T.fn('erf', x.t))
    if isinstance(x, _np.ndarray) and x.dtype == object:
        out = _np.empty(x.shape, dtype=object)
        for idx in _np.ndindex(*x.shape):
            out[idx] = _erf_any(x[idx])
        return out
    from scipy.special import erf
    return erf(x)


class _RandomProxy(object):
    """np.random inside chi; the state behind it is replaced at the start of
    every (re-)execution of a case (harness ``B.new_rng()``)."""
    target = None

    def __getattr__(self, name):
        if _RandomProxy.target is None:
            raise RuntimeError('np.random used without an RNG stub state')
        return getattr(_RandomProxy.target, name)


class _TruncProxy(object):
    target = None

    def __getattr__(self, name):
        return getattr(_TruncProxy.target, name)


def new_rng():
    r = RNG()
    _RandomProxy.target = r
    _TruncProxy.target = TruncNorm(r)
    r.truncnorm = _TruncProxy.target
    return r


def _norm_pdf(x):
    from .facade_np import _elementwise
    import scipy.stats
    f = _elementwise(
        lambda s: (-(s * s) / 2).exp() / Sym(T.fn('sqrt', T.mul(
            T.TWO, T.PI))), scipy.stats.norm.pdf)
    return f(x)


def _norm_cdf(x):
    from .facade_np import _elementwise
    import scipy.stats
    f = _elementwise(
        lambda s: (Sym(T.fn('erf', (s / Sym(T.fn('sqrt', T.TWO))).t)) + 1)
        / 2, scipy.stats.norm.cdf)
    return f(x)


class _Norm(object):
    pdf = staticmethod(_norm_pdf)
    cdf = staticmethod(_norm_cdf)


def install(spec=None, concrete=False):
    """spec keys: random (facade for np.random), myokit (True -> the myokit
    stub), extra (dict module -> {name: object}), pi_symbolic.  With
    ``concrete`` only the myokit stub is installed (the float code runs on the
    real NumPy; sundials is absent, so the solver stays a stub)."""
    spec = spec or {}
    if _installed[0]:
        uninstall()
    if spec.get('myokit'):
        from .facade_myokit import MyokitFacade
        spec = dict(spec)
        spec['myokit'] = MyokitFacade()
    if concrete:
        if not spec.get('myokit'):
            return None
        for name in CHI_MODULES:
            try:
                mod = importlib.import_module(name)
            except Exception:
                continue
            if hasattr(mod, 'myokit'):
                _saved.append((mod, 'myokit', True, mod.__dict__['myokit']))
                setattr(mod, 'myokit', spec['myokit'])
        _installed[0] = True
        return None
    np_f = NP(random=spec.get('random', _RandomProxy()),
              pi_symbolic=spec.get('pi_symbolic', True))
    import pints
    pints_f = _Delegate(pints, vector=pints_vector)
    math_f = MathFacade(_math, erf=_math_erf, sqrt=_math_sqrt, exp=_math_exp,
                        log=_math_log)
    for name in CHI_MODULES:
        try:
            mod = importlib.import_module(name)
        except Exception:
            continue
        binds = {}
        if hasattr(mod, 'np'):
            binds['np'] = np_f
        if hasattr(mod, 'pints'):
            binds['pints'] = pints_f
        if hasattr(mod, 'math'):
            binds['math'] = math_f
        if hasattr(mod, 'erf'):
            binds['erf'] = _erf_any
        if hasattr(mod, 'truncnorm'):
            binds['truncnorm'] = _TruncProxy()
        if hasattr(mod, 'norm'):
            binds['norm'] = _Norm()
        if name in ('chi._mechanistic_models', 'chi._predictive_models',
                    'chi._log_pdfs'):
            binds['float'] = FloatF
            binds['int'] = IntF
        if 'myokit' in spec and hasattr(mod, 'myokit'):
            binds['myokit'] = spec['myokit']
        if hasattr(mod, 'pd') and name == 'chi._problems':
            from .facade_pd import PD
            binds['pd'] = PD()
            binds['np'] = NP(random=spec.get('random', _RandomProxy()),
                             pi_symbolic=spec.get('pi_symbolic', True),
                             alloc_view=True)
        for mname, d in (spec.get('extra') or {}).items():
            if mname == name:
                binds.update(d)
        for k, v in binds.items():
            had = k in mod.__dict__
            _saved.append((mod, k, had, mod.__dict__.get(k)))
            setattr(mod, k, v)
    _installed[0] = True
    return np_f


def uninstall():
    while _saved:
        mod, k, had, old = _saved.pop()
        if had:
            setattr(mod, k, old)
        else:
            try:
                delattr(mod, k)
            except AttributeError:
                pass
    _installed[0] = False
