"""
Harness core: a *case* is a function ``case(B, cfg)`` written once against a
backend ``B``.  With the symbolic backend the real chi code runs on symbolic
scalars under the path explorer and every obligation is sent to the solver;
with the concrete backend the very same case runs on floats against the
un-instrumented chi code (replay of counter-examples, differential validation
of the executor).
"""
import hashlib
import json
import math
import os
import re
import sys
import time
import traceback

import numpy as _np

from . import terms as T
from .sym import Sym, SymBool, Explorer, PathAbort, UNINIT
from .decide import Solver
from . import facades

sys.setrecursionlimit(20000)

HARNESS_ERROR = 3


class Skip(BaseException):
    """Concrete replay: the point violates an assumption."""


def _default_value(name):
    h = int(hashlib.sha1(name.encode()).hexdigest()[:8], 16)
    return 0.6 + (h % 1000) / 1250.0


# ------------------------------------------------------------------ UFs
class UFRegistry(object):
    """Concrete interpretations of the uninterpreted symbols, so that replays
    and differential checks can run the float code.  ``Y``-style symbols get a
    smooth positive family keyed by their name."""

    def __init__(self, overrides=None):
        self.impl = {}
        # values a solver model gave to single applications (name, args)
        self.overrides = {}
        for name, args, val in (overrides or []):
            self.overrides[(name, tuple(round(float(x), 6) for x in args))] \
                = float(val)

    def __call__(self, name, *vals):
        if self.overrides:
            try:
                key = (name, tuple(round(float(x), 6) for x in vals))
            except (TypeError, ValueError):
                key = None
            if key in self.overrides:
                return self.overrides[key]
        if name in self.impl:
            return self.impl[name](*vals)
        return generic_uf(name, *vals)


def _seed_of(name):
    return int(hashlib.sha1(name.encode()).hexdigest()[:6], 16)


def generic_uf(name, *vals):
    """A fixed smooth positive function per name, with analytic partials:
    base(name)(x) = 1.5 + sum_j a_j * s(x_j + b_j),  s(u) = u^2/(1+u^2)+ .1 u
    is replaced by simpler: a_j * (x_j + b_j)^2.
    ``D<j>:name`` is its exact partial derivative."""
    order = []
    base = name
    while base.startswith('D') and ':' in base:
        head, rest = base.split(':', 1)
        try:
            order.append(int(head[1:]))
        except ValueError:
            break
        base = rest
    s = _seed_of(base)
    n = len(vals)
    a = [0.2 + ((s >> (3 * j)) % 7) / 10.0 for j in range(n)]
    b = [0.1 + ((s >> (2 * j + 5)) % 5) / 10.0 for j in range(n)]
    c = 1.5 + (s % 11) / 10.0
    # f = c + sum_j a_j (x_j+b_j)^2 + 0.05 * prod_j (x_j + 1)  [couples args]
    if not order:
        r = c + sum(a[j] * (vals[j] + b[j]) ** 2 for j in range(n))
        p = 0.05
        for v in vals:
            p *= (v + 1)
        return r + (p if n > 1 else 0.0)
    if len(order) == 1:
        j = order[0]
        r = 2 * a[j] * (vals[j] + b[j])
        if n > 1:
            p = 0.05
            for i, v in enumerate(vals):
                if i != j:
                    p *= (v + 1)
            r += p
        return r
    raise NotImplementedError('second-order partials of %s' % name)


# ------------------------------------------------------------------ backends
class Backend(object):
    symbolic = None

    def __init__(self):
        self.obls = []
        self.notes = {}
        self.cover_seen = {}
        self.cover_expect = {}

    def begin(self):
        self.obls = []
        self.notes = {}
        self.cover_seen = {}
        self.cover_expect = {}

    def cover(self, key, item, expect=None):
        """coverage across paths: every element of ``expect`` must be hit
        on some feasible path (used for uniform random choices: each
        alternative must be reachable)"""
        self.cover_seen.setdefault(key, set()).add(item)
        if expect is not None:
            self.cover_expect[key] = set(expect)

    # obligations ----------------------------------------------------------
    def eq(self, label, lhs, rhs, tol=None):
        self.obls.append(('eq', label, lhs, rhs, tol))

    def holds(self, label, cond):
        self.obls.append(('holds', label, cond, None))

    def fact(self, label, ok, detail=''):
        self.obls.append(('fact', label, bool(ok), detail))

    def eq_array(self, label, lhs, rhs):
        lhs = _np.asarray(lhs, dtype=object)
        rhs = _np.asarray(rhs, dtype=object)
        if lhs.shape != rhs.shape:
            self.fact(label + ':shape', False,
                      'shape %s vs %s' % (lhs.shape, rhs.shape))
            return
        for idx in _np.ndindex(*lhs.shape):
            self.eq('%s%s' % (label, list(idx)), lhs[idx], rhs[idx])

    def note(self, key, value):
        self.notes[key] = value


class SymBackend(Backend):
    symbolic = True

    def __init__(self):
        Backend.__init__(self)
        self.created = {}

    def var(self, name, default=None):
        self.created[name] = default
        return Sym.var(name)

    def vars(self, prefix, n):
        return [self.var('%s%d' % (prefix, i)) for i in range(n)]

    def assume(self, cond):
        if cond is True or cond is _np.True_:
            return
        if not bool(cond):
            raise PathAbort('assumption')

    def log(self, x):
        return Sym.lift(x).log()

    def exp(self, x):
        return Sym.lift(x).exp()

    def sqrt(self, x):
        return Sym.lift(x).sqrt()

    def erf(self, x):
        return Sym(T.fn('erf', Sym.lift(x).t))

    @property
    def pi(self):
        return Sym(T.PI)

    def uf(self, name, *args):
        return Sym(T.mk('f', name, *[Sym.lift(a).t for a in args]))

    def grad(self, f, xs):
        v = f(list(xs))
        if not isinstance(v, Sym):
            return v, [v for _ in xs]   # -inf etc.: caller compares kinds
        return v, [Sym(T.diff(v.t, x.t)) for x in xs]

    def diff(self, v, x):
        return Sym(T.diff(Sym.lift(v).t, x.t))

    def new_rng(self):
        """Fresh RNG stub state (call at the start of the case)."""
        return facades.new_rng()


class ConcreteBackend(Backend):
    symbolic = False

    def __init__(self, env, ufs=None):
        Backend.__init__(self)
        self.env = env
        self.ufs = ufs or UFRegistry(env.get('__uf__'))

    def var(self, name, default=None):
        if name in self.env:
            return float(self.env[name])
        v = default if default is not None else _default_value(name)
        self.env[name] = v
        return float(v)

    def vars(self, prefix, n):
        return [self.var('%s%d' % (prefix, i)) for i in range(n)]

    def assume(self, cond):
        if not bool(cond):
            raise Skip()

    def log(self, x):
        return math.log(x)

    def exp(self, x):
        return math.exp(x)

    def sqrt(self, x):
        return math.sqrt(x)

    def erf(self, x):
        return math.erf(x)

    pi = math.pi

    def uf(self, name, *args):
        return self.ufs(name, *[float(a) for a in args])

    def grad(self, f, xs, h=1e-4):
        xs = [float(x) for x in xs]
        v = f(list(xs))
        g = []
        for k in range(len(xs)):
            def at(d):
                y = list(xs)
                y[k] += d
                return float(f(y))
            try:
                d1 = (at(h) - at(-h)) / (2 * h)
                d2 = (at(h / 2) - at(-h / 2)) / h
                g.append((4 * d2 - d1) / 3)
            except Exception:
                g.append(float('nan'))
        return v, g

    def diff(self, v, x):
        raise NotImplementedError('use grad() so that replays can run')

    def new_rng(self):
        return None


# ------------------------------------------------------------------ running
def close(a, b, tol):
    try:
        a = float(a)
        b = float(b)
    except TypeError:
        return False
    if math.isnan(a) or math.isnan(b):
        return math.isnan(a) and math.isnan(b)
    if math.isinf(a) or math.isinf(b):
        return a == b
    return abs(a - b) <= tol * (1.0 + abs(a) + abs(b))


def _kind(x):
    if isinstance(x, Sym):
        return 'sym'
    if x is UNINIT:
        return 'uninit'
    return 'num'


class CaseResult(object):
    """Plain-data result of one case (picklable)."""

    def __init__(self, case, cfg):
        self.case = case
        self.cfg = cfg
        self.paths = 0
        self.obligations = 0
        self.discharged = 0
        self.nontrivial = 0
        self.trivial = 0
        self.identical = 0
        self.inconclusive = []      # [(label, why)]
        self.violations = []        # [dict(label, env, detail, confirmed)]
        self.exceptions = []        # [(repr exc, conds)]
        self.errors = []            # harness errors
        self.twins = 0
        self.canon_checks = 0
        self.twins_ok = 0
        self.diffchecks = 0
        self.feasibility = 0
        self.solver = {}
        self.samples = []
        self.seconds = 0.0
        self.functions = []
        self.notes = {}
        self.incomplete = None


def run_case(case_name, fn, cfg, opts):
    """Symbolically execute one case and decide its obligations."""
    t0 = time.time()
    res = CaseResult(case_name, cfg)
    solver = Solver(timeout_ms=opts.get('timeout_ms', 60000))
    B = SymBackend()
    ex = Explorer(solver, max_paths=opts.get('max_paths', 256),
                  max_decisions=opts.get('max_decisions', 400),
                  floor_cap=opts.get('floor_cap', 6))
    facades.install(opts.get('facade', {}))
    profile = opts.get('profile', False)
    seen_fns = set()

    def prof(frame, event, arg):
        if event == 'call':
            fnm = frame.f_code.co_filename
            if '/chi/' in fnm and '/tests/' not in fnm:
                seen_fns.add('%s:%s' % (os.path.basename(fnm),
                                        frame.f_code.co_qualname))

    from . import facade_myokit
    facade_myokit.set_backend(B)

    def body():
        B.begin()
        fn(B, cfg)
        notes = dict(B.notes)
        notes['__cover__'] = (dict(B.cover_seen), dict(B.cover_expect))
        return list(B.obls), notes

    try:
        if profile:
            sys.setprofile(prof)
        try:
            paths = ex.run(body)
        finally:
            if profile:
                sys.setprofile(None)
    finally:
        facades.uninstall()
    res.functions = sorted(seen_fns)
    res.paths = len(paths)
    res.feasibility = ex.n_feasibility
    res.incomplete = ex.incomplete
    if ex.incomplete:
        res.inconclusive.append(('exploration', ex.incomplete))
    if not paths and not ex.incomplete:
        res.errors.append('no feasible path (vacuous case)')

    expect_exc = opts.get('exceptions_are_results', False)
    cover_seen, cover_expect = {}, {}
    twin_done = False
    diff_done = False
    for p in paths:
        point = None      # one concrete point of this path (lazily)
        if p.exc is not None:
            tb = ''.join(traceback.format_exception(
                type(p.exc), p.exc, p.exc.__traceback__)[-3:])
            res.exceptions.append((repr(p.exc), [T.show(c) for c in p.conds],
                                   tb))
            if not expect_exc:
                # an exception escaping the case: raised by chi itself (the
                # innermost frame is chi code) -> candidate violation, to be
                # confirmed by the float run raising as well; raised by the
                # harness / engine -> harness error
                tbk = p.exc.__traceback__
                last = None
                while tbk is not None:
                    last = tbk.tb_frame.f_code.co_filename
                    tbk = tbk.tb_next
                if last and '/chi/' in last and '/verif/' not in last:
                    res.obligations += 1
                    _violation(res, fn, cfg, opts, solver, p,
                               'no-exception: chi raised %s' %
                               type(p.exc).__name__, None, repr(p.exc))
                else:
                    res.errors.append('uncaught %r on path %s\n%s' % (
                        p.exc, [T.show(c) for c in p.conds], tb))
            continue
        obls, notes = p.result
        seen_, expect_ = notes.pop('__cover__', ({}, {}))
        for k_, v_ in seen_.items():
            cover_seen.setdefault(k_, set()).update(v_)
        cover_expect.update(expect_)
        res.notes.update(notes)
        for ob in obls:
            if opts.get('max_violations_per_case') and len(
                    res.violations) >= opts['max_violations_per_case']:
                # (opt-in, for configurations whose replays are expensive and
                # that have no known findings: the configuration is refuted,
                # each violation replayed on the float code)
                res.stopped_early = True
                break
            kind, label = ob[0], ob[1]
            res.obligations += 1
            if kind == 'fact':
                res.trivial += 1
                if ob[2]:
                    res.discharged += 1
                else:
                    _violation(res, fn, cfg, opts, solver, p, label, None,
                               'fact failed: %s' % ob[3])
                continue
            if kind == 'holds':
                c = ob[2]
                if isinstance(c, SymBool):
                    goal = c.c
                elif isinstance(c, T.Term):
                    goal = c
                else:
                    res.trivial += 1
                    if bool(c):
                        res.discharged += 1
                    else:
                        _violation(res, fn, cfg, opts, solver, p, label, None,
                                   'condition is concretely false')
                    continue
                res.nontrivial += 1
                v, env = solver.prove(p.conds, goal)
                _settle(res, fn, cfg, opts, solver, p, label, v, env,
                        T.show(goal, 4))
                continue
            lhs, rhs = ob[2], ob[3]
            kl, kr = _kind(lhs), _kind(rhs)
            if 'uninit' in (kl, kr):
                if kl == kr:
                    res.trivial += 1
                    res.discharged += 1
                else:
                    _violation(res, fn, cfg, opts, solver, p, label, None,
                               'uninitialised memory reaches the result')
                continue
            if kl == 'num' and kr == 'num':
                res.trivial += 1
                if close(lhs, rhs, 1e-9):
                    res.discharged += 1
                else:
                    _violation(res, fn, cfg, opts, solver, p, label, None,
                               'concrete mismatch %r vs %r' % (lhs, rhs))
                continue
            # at least one symbolic side
            for side in (lhs, rhs):
                if _kind(side) == 'num' and (
                        math.isinf(float(side)) or math.isnan(float(side))):
                    _violation(res, fn, cfg, opts, solver, p, label, None,
                               'finite symbolic value vs %r' % (side,))
                    break
            else:
                lt_, rt_ = Sym.lift(lhs).t, Sym.lift(rhs).t
                if lt_ is rt_:
                    res.trivial += 1
                    res.identical += 1
                    res.discharged += 1
                    if len(res.samples) < 2:
                        res.samples.append(dict(
                            label=label, verdict='identical terms',
                            lhs=T.show(lt_, 4)))
                    continue
                res.nontrivial += 1
                # cheap refutation first: at one concrete point of the path
                # (a model of assumptions + path condition, computed once per
                # path) the two sides are evaluated; a difference is a
                # candidate counter-example and goes through the usual replay
                # on the float code.  Agreement proves nothing: the solver
                # decides.
                if point is None:
                    point = _path_point(solver, p)
                w = _differs_at(point, lt_, rt_) if point else None
                if w is not None:
                    nv, ni, ne = (len(res.violations), len(res.inconclusive),
                                  len(res.errors))
                    _violation(res, fn, cfg, opts, solver, p, label, w,
                               'the sides differ at a point of the path',
                               lt_, rt_)
                    if len(res.violations) > nv:
                        continue
                    # not reproduced on the float code: forget it, ask the
                    # solver
                    del res.inconclusive[ni:]
                    del res.errors[ne:]
                tq = time.time()
                v, env = solver.prove(p.conds, T.eq(lt_, rt_))
                dq = time.time() - tq
                if len(res.samples) < 3:
                    res.samples.append(dict(
                        label=label, verdict=v, seconds=round(dq, 3),
                        path=[T.show(c, 3) for c in p.conds][:6],
                        lhs_size=T.size(lt_), rhs_size=T.size(rt_),
                        lhs=T.show(lt_, 4)[:300], rhs=T.show(rt_, 4)[:300]))
                _settle(res, fn, cfg, opts, solver, p, label, v, env,
                        None, lt_, rt_)
                if v == 'proved' and T.variables([lt_, rt_]):
                    if not twin_done:
                        # vacuity twin (once per case)
                        twin_done = True
                        res.twins += 1
                        tv = _witness(solver, p, lt_, rt_)
                        if tv is True:
                            res.twins_ok += 1
                        else:
                            res.errors.append(
                                'vacuity twin of %s failed: %s' % (label, tv))
                    elif solver.last_stage == 1:
                        # every obligation decided by the canonical stage:
                        # the canonical forms must evaluate like the terms
                        tv = _canon_check(solver, p, lt_, rt_)
                        res.canon_checks += 1
                        if tv is not True:
                            res.errors.append(
                                'canonical stage unsound on %s: %s' % (
                                    label, tv))
        if not diff_done and obls and opts.get('diffcheck', True):
            diff_done = True
            _diffcheck(res, fn, cfg, opts, solver, p, obls)
    if not ex.incomplete:
        for k_, want_ in cover_expect.items():
            res.obligations += 1
            res.trivial += 1
            missing = want_ - cover_seen.get(k_, set())
            if not missing:
                res.discharged += 1
            else:
                res.violations.append(dict(
                    label='coverage: every alternative of %s is reachable'
                          % k_,
                    detail='never selected on any feasible path: %r'
                           % sorted(missing)[:6],
                    confirmed=True, outcome='exhaustive path exploration',
                    env=None, path=[]))
    res.solver = solver.stats.as_dict()
    res.seconds = time.time() - t0
    return res


def _witness(solver, p, lt_, rt_):
    """Reachability / vacuity witness for a proved obligation: the solver
    exhibits a model of assumptions + path condition; at that point (function
    symbols given their real meaning) every lemma the proof could use must be
    true and the two sides must agree, so the twin 'lhs = rhs + 1' is violated
    there.  A false lemma or an unsatisfiable path makes this fail."""
    r, m = _spread_model(solver, p.conds, 3)
    if r != 'sat':
        r, m = solver.model(p.conds)
    if r != 'sat':
        return 'path condition not satisfiable (%s)' % r
    env = _fl(m)
    for n in T.variables([lt_, rt_]):
        if n not in env and n != 'pi':
            env[n] = _default_value(n)
    ufs = UFRegistry()
    lemmas = solver.lemma_terms(p.conds + [lt_, rt_])
    for n in T.variables(lemmas):
        if n not in env and n != 'pi':
            env[n] = _default_value(n)
    for l in lemmas:
        try:
            ok = T.evalf(l, env, {'*': ufs})
        except (T.Undefined, OverflowError, ZeroDivisionError,
                NotImplementedError):
            continue
        if not ok and not _nearly(l, env, ufs):
            return 'lemma false at the witness: %s' % T.show(l, 5)
    try:
        a = T.evalf(lt_, env, {'*': ufs})
        b = T.evalf(rt_, env, {'*': ufs})
    except (T.Undefined, OverflowError, ZeroDivisionError,
            NotImplementedError):
        return True
    if not close(a, b, 1e-6):
        return 'proved sides differ numerically at the witness: %r %r' % (
            a, b)
    # the canonical forms used by stage 1 must have the same values
    ca, cb = solver.canon_values(p.conds, [lt_, rt_], env, ufs)
    if ca is not None and not close(ca, a, 1e-6):
        return 'canonical form of lhs evaluates to %r, the term to %r' % (
            ca, a)
    if cb is not None and not close(cb, b, 1e-6):
        return 'canonical form of rhs evaluates to %r, the term to %r' % (
            cb, b)
    return True


def _path_env(solver, p):
    env = getattr(p, '_env', None)
    if env is None:
        r, m = _spread_model(solver, p.conds, 3)
        if r != 'sat':
            r, m = solver.model(p.conds)
        env = _fl(m) if r == 'sat' else False
        p._env = env
    return env


def _canon_check(solver, p, lt_, rt_):
    env = _path_env(solver, p)
    if env is False:
        return 'path condition not satisfiable'
    env = dict(env)
    for n in T.variables([lt_, rt_]):
        if n not in env and n != 'pi':
            env[n] = _default_value(n)
    ufs = UFRegistry()
    try:
        a = T.evalf(lt_, env, {'*': ufs})
        b = T.evalf(rt_, env, {'*': ufs})
    except (T.Undefined, OverflowError, ZeroDivisionError,
            NotImplementedError, KeyError):
        return True
    ca, cb = solver.canon_values(p.conds, [lt_, rt_], env, ufs)
    if ca is not None and not close(ca, a, 1e-6):
        return 'canonical form of lhs evaluates to %r, the term to %r' % (
            ca, a)
    if cb is not None and not close(cb, b, 1e-6):
        return 'canonical form of rhs evaluates to %r, the term to %r' % (
            cb, b)
    if not close(a, b, 1e-6):
        return 'proved sides differ numerically: %r %r' % (a, b)
    return True


def _nearly(l, env, ufs, tol=1e-9):
    """Lemmas are exact over the reals; in floats a comparison may be off by
    rounding.  Polarity-aware loose evaluation: every atom is given the
    benefit of ``tol`` in the direction that makes the lemma true."""
    def val(t):
        return T.evalf(t, env, {'*': ufs})

    def loose(t, pol):
        op = t.op
        if op == 'not':
            return not loose(t.args[0], not pol)
        if op == 'and':
            return all(loose(a, pol) for a in t.args)
        if op == 'or':
            return any(loose(a, pol) for a in t.args)
        if op in ('true', 'false'):
            return op == 'true'
        a, b = val(t.args[0]), val(t.args[1])
        m = tol * (1 + abs(a) + abs(b))
        if not pol:
            m = -m
        if op == '<':
            return a < b + m
        if op == '<=':
            return a <= b + m
        if op == '==':
            return abs(a - b) <= m if pol else (a == b and False)
        raise TypeError(op)
    try:
        return loose(l, True)
    except (T.Undefined, OverflowError, ZeroDivisionError,
            NotImplementedError, KeyError):
        return True


def _settle(res, fn, cfg, opts, solver, p, label, verdict, env, shown,
            lt_=None, rt_=None):
    if verdict == 'proved':
        res.discharged += 1
        return
    if verdict == 'unknown':
        # no verdict from the solver: before giving up, look at one concrete
        # point of the path (a model of assumptions + path condition).  If the
        # two sides differ there, that point is a candidate counter-example
        # and goes through the same replay on the float code as a solver
        # counter-example; if they agree nothing is concluded.
        w = _numeric_witness(solver, p, lt_, rt_) if lt_ is not None else None
        if w is not None:
            _violation(res, fn, cfg, opts, solver, p, label, w,
                       'solver inconclusive; the sides differ at a point of '
                       'the path', lt_, rt_)
            return
        res.inconclusive.append((label, 'solver unknown/timeout'))
        return
    # refuted: concretise and replay
    _violation(res, fn, cfg, opts, solver, p, label, env,
               'solver counter-example', lt_, rt_)


def _path_point(solver, p):
    try:
        r, m = _spread_model(solver, p.conds, 3)
        if r != 'sat':
            r, m = solver.model(p.conds)
        if r != 'sat':
            return {}
        return _fl(m)
    except Exception:
        return {}


def _differs_at(point, lt_, rt_):
    env = dict(point)
    try:
        for n in T.variables([lt_, rt_]):
            if n not in env and n != 'pi':
                env[n] = _default_value(n)
        ufs = UFRegistry()
        a = T.evalf(lt_, env, {'*': ufs})
        b = T.evalf(rt_, env, {'*': ufs})
    except (T.Undefined, OverflowError, ZeroDivisionError,
            NotImplementedError, KeyError, ValueError):
        return None
    if close(a, b, 1e-6):
        return None
    return env


def _numeric_witness(solver, p, lt_, rt_):
    try:
        r, m = _spread_model(solver, p.conds, 3)
        if r != 'sat':
            r, m = solver.model(p.conds)
        if r != 'sat':
            return None
        env = _fl(m)
        for n in T.variables([lt_, rt_]):
            if n not in env and n != 'pi':
                env[n] = _default_value(n)
        ufs = UFRegistry()
        a = T.evalf(lt_, env, {'*': ufs})
        b = T.evalf(rt_, env, {'*': ufs})
    except (T.Undefined, OverflowError, ZeroDivisionError,
            NotImplementedError, KeyError, ValueError):
        return None
    if close(a, b, 1e-6):
        return None
    return env


def _fl(env):
    return {k: (v if k == '__uf__' else float(v)) for k, v in env.items()}


def concrete_run(fn, cfg, env, opts):
    """Run the case on floats against the un-instrumented chi code."""
    facades.uninstall()
    B = ConcreteBackend(dict(env))
    B.begin()
    from . import facade_myokit
    facade_myokit.set_backend(B)
    facades.install(opts.get('facade', {}), concrete=True)
    try:
        fn(B, cfg)
    finally:
        facades.uninstall()
    return B


def _concrete_label_fails(B, label, tol_eq=1e-6, tol_grad=2e-4):
    """None if label absent; else (failed?, detail)."""
    for ob in B.obls:
        if ob[1] != label:
            continue
        if ob[0] == 'fact':
            return (not ob[2], ob[3])
        if ob[0] == 'holds':
            return (not bool(ob[2]), 'condition false')
        tol = tol_grad if ('grad' in label or 'sens' in label or
                           label.startswith('d')) else tol_eq
        if len(ob) > 4 and ob[4] is not None:
            tol = ob[4]
        l, r = ob[2], ob[3]
        if l is UNINIT or r is UNINIT:
            return (True, 'uninit')
        return (not close(l, r, tol), '%r vs %r' % (l, r))
    return None


def _violation(res, fn, cfg, opts, solver, p, label, env, detail,
               lt_=None, rt_=None):
    """A refuted obligation: try to confirm it on the real float code."""
    confirmed = False
    used_env = None
    candidates = []
    if env is not None:
        candidates.append(_fl(env))
    else:
        r, m = solver.model(p.conds)
        if r == 'sat':
            candidates.append(_fl(m))
    # nearby generic points rescue counter-examples whose abstract atoms
    # were given impossible values by the solver
    for k in range(opts.get('replay_candidates', 3)):
        r, m = _spread_model(solver, p.conds, k)
        if r == 'sat':
            candidates.append(_fl(m))
    outcome = 'not reproduced'
    label_seen = False
    for cand in candidates:
        try:
            was = facades.installed()
            try:
                Bc = concrete_run(fn, cfg, cand, opts)
            finally:
                if was:
                    facades.install(opts.get('facade', {}))
            f = _concrete_label_fails(Bc, label)
        except Skip:
            continue
        except Exception as e:
            # the real code raises at this point: reproduces iff the
            # obligation was about raising
            f = (label.startswith('no-exception') or 'raises' in label,
                 'raised %r' % (e,))
        if f is None:
            continue
        label_seen = True
        if f[0]:
            confirmed = True
            used_env = Bc.env if 'Bc' in dir() else cand
            outcome = f[1]
            break
    import re as _re
    by_terms = bool(opts.get('confirm_by_terms')) or bool(
        opts.get('terms_labels') and _re.search(opts['terms_labels'], label))
    if not confirmed and lt_ is not None and by_terms:
        # cases that inspect terms cannot be re-run on floats: the
        # counter-example is confirmed on the terms the real chi code
        # produced (real meaning of log / exp / erf, fixed smooth
        # interpretation of the uninterpreted symbols)
        ufs = UFRegistry()
        for cand in candidates:
            e2 = dict(cand)
            for n in T.variables([lt_, rt_]):
                if n not in e2 and n != 'pi':
                    e2[n] = _default_value(n)
            try:
                a = T.evalf(lt_, e2, {'*': ufs})
                b = T.evalf(rt_, e2, {'*': ufs})
            except (T.Undefined, OverflowError, ZeroDivisionError,
                    NotImplementedError, KeyError):
                continue
            if not close(a, b, 1e-6):
                confirmed = True
                used_env = e2
                outcome = 'terms produced by the real code evaluate to ' \
                    '%r vs %r' % (a, b)
                break
    if not confirmed and env is None and opts.get('facts_final') and (
            detail.startswith('fact failed') or
            detail.startswith('condition is concretely false')):
        # a structural fact established while running the real chi code on
        # symbolic data (term inspection, labels, shapes): not a solver model,
        # nothing to replay on floats
        confirmed = True
        outcome = 'structural fact observed on the symbolic run of the ' \
            'real code: ' + detail
    entry = dict(label=label, detail=detail, confirmed=confirmed,
                 outcome=outcome, env=used_env or (candidates[0] if candidates
                                                  else None),
                 path=[T.show(c, 3) for c in p.conds][:8])
    if confirmed:
        res.violations.append(entry)
    else:
        if candidates and not label_seen and not by_terms and not opts.get(
                'facts_final'):
            # the float run of the case never produced this obligation: the
            # replay cannot speak about it (a defect of the case, reported
            # as such instead of a silent "not reproduced")
            res.errors.append(
                'replay impossible: the float run of the case records no '
                'obligation labelled %r' % (label,))
        res.inconclusive.append(
            (label, 'counter-example did not reproduce on the float code: %s'
             % detail))


def _spread_model(solver, conds, k):
    """a model of the path at a generic point: first with magnitudes of either
    sign (short budget -- on long non-linear paths the two-interval
    disjunctions can be slow), then with the weaker 'negative or generic'
    constraint"""
    r, m = solver.model(conds + _spread(conds, k), timeout_ms=4000)
    if r == 'sat':
        return r, m
    return solver.model(conds + _spread(conds, k, weak=True))


def _spread(conds, k, weak=False):
    """Extra constraints pushing variables to generic distinct values."""
    names = T.variables(conds)
    out = []
    for i, n in enumerate(names):
        if n == 'pi':
            continue
        v = T.var(n)
        lo = T.const(_default_value(n + str(k)) - 0.05)
        hi = T.const(_default_value(n + str(k)) + 0.05)
        # (a generic magnitude of either sign: "any negative value" let the
        # solver give every variable the same -1, a point where terms that
        # differ in one identifier coincide)
        if weak:
            out.append(T.lor(T.lt(v, T.ZERO),
                             T.land(T.le(lo, v), T.le(v, hi))))
            continue
        nlo = T.const(-(_default_value(n + str(k)) + 0.05))
        nhi = T.const(-(_default_value(n + str(k)) - 0.05))
        out.append(T.lor(T.land(T.le(nlo, v), T.le(v, nhi)),
                         T.land(T.le(lo, v), T.le(v, hi))))
    return out


def _diffcheck(res, fn, cfg, opts, solver, p, obls):
    """Executor fidelity: at a concrete point of this path, the symbolic
    terms evaluated in floats must agree with the float run of the same case
    (real NumPy, no facade)."""
    r, m = _spread_model(solver, p.conds, 7)
    if r != 'sat':
        r, m = solver.model(p.conds)
    if r != 'sat':
        return
    env = _fl(m)
    for n in T.variables([x.t for ob in obls if ob[0] == 'eq'
                          for x in ob[2:4] if isinstance(x, Sym)]):
        if n not in env and n != 'pi':
            env[n] = _default_value(n)
    was = facades.installed()
    try:
        try:
            Bc = concrete_run(fn, cfg, env, opts)
        finally:
            if was:
                facades.install(opts.get('facade', {}))
    except Skip:
        return
    except Exception as e:
        res.errors.append('differential run raised %r at %r\n%s' % (
            e, env, traceback.format_exc()[-1500:]))
        return
    conc = {ob[1]: ob for ob in Bc.obls}
    env2 = dict(Bc.env)
    ufs = UFRegistry(env2.get('__uf__'))
    n = 0
    for ob in obls:
        if ob[0] != 'eq' or ob[1] not in conc:
            continue
        if len(ob) > 4 and ob[4] is not None:
            continue    # statistical label: the float run measures it
        if opts.get('terms_labels') and re.search(opts['terms_labels'],
                                                  ob[1]):
            continue    # a term in the RNG stub's variables: the float run
            #             draws real numbers instead
        if 'grad' in ob[1] or 'sens' in ob[1]:
            tol = 5e-4
        else:
            tol = 1e-6
        for side, cside in ((ob[2], conc[ob[1]][2]),):
            if not isinstance(side, Sym):
                continue
            try:
                val = T.evalf(side.t, env2, {'*': ufs})
            except (T.Undefined, KeyError, OverflowError):
                continue
            n += 1
            if cside is UNINIT or not close(val, cside, tol):
                res.errors.append(
                    'executor disagrees with the float code on %s: '
                    'symbolic term evaluates to %r, float run gives %r at %s'
                    % (ob[1], val, cside, env2))
                return
    res.diffchecks += n


# ------------------------------------------------------------------ pool
class JobTimeout(BaseException):
    pass


def _worker(args):
    case_name, modname, fname, cfg, opts = args
    import importlib
    mod = importlib.import_module(modname)
    fn = getattr(mod, fname)
    # wall-clock budget per configuration (the Python-side normal form has
    # no timeout of its own): an overrun is reported, never waited out
    budget = int(opts.get('job_timeout_s', 0) or 0)
    if budget:
        import signal

        def _overrun(signum, frame):
            raise JobTimeout('configuration exceeded its %d s budget' % budget)
        signal.signal(signal.SIGALRM, _overrun)
        signal.alarm(budget)
    try:
        return run_case(case_name, fn, cfg, opts)
    except JobTimeout as e:
        res = CaseResult(case_name, cfg)
        res.errors.append('timeout: %s' % e)
        return res
    except BaseException as e:  # engine crash: harness error, never silent
        res = CaseResult(case_name, cfg)
        res.errors.append('engine crash: %r\n%s' % (e, traceback.format_exc()))
        return res
    finally:
        if budget:
            import signal
            signal.alarm(0)


def run_all(jobs, nproc=None):
    """jobs: list of (case_name, module, function name, cfg, opts)."""
    import multiprocessing as mp
    nproc = nproc or min(16, os.cpu_count() or 1)
    if nproc <= 1 or len(jobs) <= 1:
        return [_worker(j) for j in jobs]
    ctx = mp.get_context('fork')
    with ctx.Pool(nproc, maxtasksperchild=50) as pool:
        return pool.map(_worker, jobs, chunksize=1)
