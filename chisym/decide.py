"""
SMT back end: terms -> z3 with every function application abstracted to a
fresh real (plus instantiated lemmas and Ackermann congruence), verdicts,
models.
"""
import time
from fractions import Fraction

import z3

from . import terms as T
from .canon import Canon

MAX_LEMMA_ATOMS = 400


_BUILTIN = ('exp', 'log', 'sqrt', 'erf', 'trunc', 'abs', 'pow')


class Stats(object):
    def __init__(self):
        self.queries = 0
        self.sat = 0
        self.unsat = 0
        self.unknown = 0
        self.seconds = 0.0
        self.max_seconds = 0.0
        self.linear_queries = 0
        self.linear_unsat = 0
        self.residual_zero = 0

    def as_dict(self):
        return dict(queries=self.queries, sat=self.sat, unsat=self.unsat,
                    unknown=self.unknown, solver_seconds=round(self.seconds, 3),
                    linear_stage_queries=self.linear_queries,
                    linear_stage_unsat=self.linear_unsat,
                    residual_identically_zero=self.residual_zero,
                    max_query_seconds=round(self.max_seconds, 3))


class Solver(object):
    def __init__(self, timeout_ms=60000, ctx=None):
        self.timeout_ms = timeout_ms
        self.stats = Stats()
        self._z = {}          # term id -> z3 expr
        self._zl = {}         # term id -> z3 expr (linear abstraction)
        self._canon = Canon()
        self._atom_var = {}   # atom term id -> z3 Real
        self._atoms = {}      # atom term id -> Term
        self._lemma_cache = {}  # atom term id -> (list of z3 lemmas, [new atom terms])
        self.extra_lemmas = []  # callables atom_term -> list of bool Terms
        self.last_stage = 0

    # ------------------------------------------------------------ encoding
    def z(self, t):
        r = self._z.get(t.id)
        if r is not None:
            return r
        # iterative post-order to avoid deep recursion
        for u in T.subterms([t]):
            if u.id in self._z:
                continue
            self._z[u.id] = self._enc(u)
        return self._z[t.id]

    def _enc(self, u):
        op = u.op
        g = lambda a: self._z[a.id]
        if op == 'c':
            c = u.args[0]
            return z3.RealVal(str(c.numerator)) / z3.RealVal(str(c.denominator)) \
                if c.denominator != 1 else z3.RealVal(str(c.numerator))
        if op == 'v':
            return z3.Real(u.args[0])
        if op == '+':
            return g(u.args[0]) + g(u.args[1])
        if op == '-':
            return g(u.args[0]) - g(u.args[1])
        if op == 'neg':
            return -g(u.args[0])
        if op == '*':
            return g(u.args[0]) * g(u.args[1])
        if op == '/':
            return g(u.args[0]) / g(u.args[1])
        if op == '^':
            b = g(u.args[0])
            k = u.args[1]
            r = b
            for _ in range(k - 1):
                r = r * b
            return r
        if op == 'ite':
            return z3.If(g(u.args[0]), g(u.args[1]), g(u.args[2]))
        if op == 'f':
            v = z3.Real('@%s#%d' % (u.args[0], u.id))
            self._atom_var[u.id] = v
            self._atoms[u.id] = u
            return v
        if op == '<':
            return g(u.args[0]) < g(u.args[1])
        if op == '<=':
            return g(u.args[0]) <= g(u.args[1])
        if op == '==':
            return g(u.args[0]) == g(u.args[1])
        if op == 'not':
            return z3.Not(g(u.args[0]))
        if op == 'and':
            return z3.And(*[g(a) for a in u.args])
        if op == 'or':
            return z3.Or(*[g(a) for a in u.args])
        if op == 'true':
            return z3.BoolVal(True)
        if op == 'false':
            return z3.BoolVal(False)
        raise TypeError(op)

    # ------------------------------------------------- linear abstraction
    def zl(self, t):
        """Linear-abstraction encoding (see canon.py): const + sum coeff * M
        with opaque canonical monomials M.  Validity under this encoding
        implies validity under the precise one."""
        r = self._zl.get(t.id)
        if r is not None:
            return r
        op = t.op
        if op in ('<', '<=', '=='):
            d = self._canon.lin(t.args[0]).plus(
                self._canon.lin(t.args[1]), -1)
            e = self._lin_expr(d)
            zero = z3.RealVal(0)
            r = e < zero if op == '<' else (e <= zero if op == '<=' else
                                           e == zero)
        elif op == 'not':
            r = z3.Not(self.zl(t.args[0]))
        elif op == 'and':
            r = z3.And(*[self.zl(a) for a in t.args])
        elif op == 'or':
            r = z3.Or(*[self.zl(a) for a in t.args])
        elif op == 'true':
            r = z3.BoolVal(True)
        elif op == 'false':
            r = z3.BoolVal(False)
        else:
            r = self._lin_expr(self._canon.lin(t))
        self._zl[t.id] = r
        return r

    def _lin_expr(self, l):
        c = l.const
        e = z3.RealVal(str(c.numerator)) / z3.RealVal(str(c.denominator)) \
            if c.denominator != 1 else z3.RealVal(str(c.numerator))
        for k, v in l.coef.items():
            m = z3.Real('$m%d' % k)
            if v == 1:
                e = e + m
            else:
                cv = z3.RealVal(str(v.numerator)) / z3.RealVal(
                    str(v.denominator)) if v.denominator != 1 else \
                    z3.RealVal(str(v.numerator))
                e = e + cv * m
        return e

    def _facts(self, conds):
        """(nz, pos): interned bases entailed non-zero / positive by the
        assumptions (syntactically: 0 < t, t < 0, not (t <= 0), not (0 <= t),
        not (t == 0)); computed to a fixpoint because recognising log / sqrt
        structure needs the positivity facts and vice versa."""
        nz, pos = set(), set()
        for rounds in range(3):
            cn = Canon(nz, positive=pos)
            n0 = (len(nz), len(pos))
            for c in conds:
                t = None
                if c.op == '<' and c.args[0] is T.ZERO:
                    t = c.args[1]
                elif c.op == 'not' and c.args[0].op == '<=' and \
                        c.args[0].args[1] is T.ZERO:
                    t = c.args[0].args[0]
                if t is not None:
                    b = cn.positive_base(t)
                    if b is not None:
                        pos.add(b)
                for t in _nonzero_terms(c):
                    nz |= cn.nonzero_bases(t)
            nz |= pos
            if (len(nz), len(pos)) == n0:
                break
        return nz, pos

    def _nonzero_facts(self, conds):
        return self._facts(conds)[0]

    def _positive_facts(self, conds, nz):
        return self._facts(conds)[1]

    def _solve_linear(self, conds):
        nz, pos = self._facts(conds[:-1])
        first = Canon(nz, positive=pos)
        for c in conds:
            for u in T.subterms([c]):
                if u.op in ('<', '<=', '=='):
                    first.lin(u.args[0])
                    first.lin(u.args[1])
        self._canon = Canon(nz, first.structural_sums(), positive=pos)
        self._zl = {}
        goal = conds[-1]
        if goal.op == 'not' and goal.args[0].op == '==':
            # residual of the equality with the denominators that are sums
            # cleared: identically zero => the negated goal is unsatisfiable
            cn = self._canon
            a, b = goal.args[0].args
            d = cn.lin(a).plus(cn.lin(b), -1)
            if cn.residual_is_zero(d):
                # the residual, with non-zero sum denominators cleared and
                # products expanded, is the zero polynomial in the opaque
                # monomials: the solver is asked the (now trivial) query
                s0 = z3.Solver()
                s0.add(self._lin_expr(
                    cn.clear_denominators(cn.expand_numerators(d)))
                    != z3.RealVal(0))
                self.stats.queries += 1
                self.stats.linear_queries += 1
                if s0.check() == z3.unsat:
                    self.stats.unsat += 1
                    self.stats.linear_unsat += 1
                    self.stats.residual_zero += 1
                    return 'unsat'
        s = z3.Solver()
        s.set('timeout', 5000)
        for c in conds:
            if c is not T.TRUE:
                s.add(self.zl(c))
        t0 = time.time()
        r = s.check()
        dt = time.time() - t0
        self.stats.queries += 1
        self.stats.seconds += dt
        self.stats.linear_queries += 1
        if r == z3.unsat:
            self.stats.unsat += 1
            self.stats.linear_unsat += 1
            return 'unsat'
        return 'other'

    # ------------------------------------------------------------ lemmas
    def _atom_lemmas(self, a):
        """Instantiated facts about one application; returns bool Terms."""
        name = a.args[0]
        out = []
        if name == 'exp':
            u = a.args[1]
            out.append(T.lt(T.ZERO, a))
            # tangent at 0: exp(u) >= 1 + u
            out.append(T.le(T.add(T.ONE, u), a))
            if u.op == '+':
                out.append(T.eq(a, T.mul(T.fn('exp', u.args[0]),
                                         T.fn('exp', u.args[1]))))
            elif u.op == '-':
                out.append(T.eq(a, T.div(T.fn('exp', u.args[0]),
                                         T.fn('exp', u.args[1]))))
            elif u.op == 'neg':
                out.append(T.eq(T.mul(a, T.fn('exp', u.args[0])), T.ONE))
            elif u.op == 'f' and u.args[0] == 'log':
                w = u.args[1]
                out.append(T.lor(T.le(w, T.ZERO), T.eq(a, w)))
            elif u.op == '*' and u.args[0].op == 'c' and \
                    u.args[0].args[0].denominator == 1 and \
                    1 < abs(u.args[0].args[0]) <= 4:
                k = int(u.args[0].args[0])
                e1 = T.fn('exp', u.args[1])
                out.append(T.eq(a, T.power(e1, k)))
        elif name == 'log':
            u = a.args[1]
            pos = lambda w: T.lt(T.ZERO, w)
            imp = lambda pre, concl: T.lor(T.lnot(pre), concl)
            # log u <= u - 1
            out.append(imp(pos(u), T.le(a, T.sub(u, T.ONE))))
            if u.op == '*':
                x, y = u.args
                out.append(imp(T.land(pos(x), pos(y)),
                               T.eq(a, T.add(T.fn('log', x), T.fn('log', y)))))
            elif u.op == '/':
                x, y = u.args
                out.append(imp(T.land(pos(x), pos(y)),
                               T.eq(a, T.sub(T.fn('log', x), T.fn('log', y)))))
            elif u.op == '^':
                x, k = u.args
                out.append(imp(pos(x), T.eq(a, T.mul(T.const(k),
                                                     T.fn('log', x)))))
            elif u.op == 'f' and u.args[0] == 'sqrt':
                x = u.args[1]
                out.append(imp(pos(x), T.eq(a, T.mul(T.HALF, T.fn('log', x)))))
            elif u.op == 'f' and u.args[0] == 'exp':
                out.append(T.eq(a, u.args[1]))
        elif name == 'sqrt':
            u = a.args[1]
            out.append(T.lor(T.lt(u, T.ZERO),
                             T.land(T.le(T.ZERO, a), T.eq(T.mul(a, a), u))))
        elif name == 'erf':
            out.append(T.lt(T.const(-1), a))
            out.append(T.lt(a, T.ONE))
            u = a.args[1]
            # sign
            out.append(T.lor(T.lnot(T.lt(T.ZERO, u)), T.lt(T.ZERO, a)))
            out.append(T.lor(T.lnot(T.lt(u, T.ZERO)), T.lt(a, T.ZERO)))
            out.append(T.lor(T.lnot(T.eq(u, T.ZERO)), T.eq(a, T.ZERO)))
        for f in self.extra_lemmas:
            out.extend(f(a))
        return out

    def _pair_lemmas(self, a, b):
        """Congruence (and monotonicity) between two applications of one
        function."""
        name = a.args[0]
        aa, ba = a.args[1:], b.args[1:]
        if len(aa) != len(ba):
            return []
        out = []
        if name in ('exp', 'erf') and len(aa) == 1:
            x, y = aa[0], ba[0]
            out.append(T.lor(T.lnot(T.lt(x, y)), T.lt(a, b)))
            out.append(T.lor(T.lnot(T.lt(y, x)), T.lt(b, a)))
            out.append(T.lor(T.lnot(T.eq(x, y)), T.eq(a, b)))
            if name == 'erf':
                out.append(T.lor(T.lnot(T.eq(T.add(x, y), T.ZERO)),
                                 T.eq(T.add(a, b), T.ZERO)))
            return out
        if name in ('log', 'sqrt') and len(aa) == 1:
            x, y = aa[0], ba[0]
            lo = T.lt(T.ZERO, x) if name == 'log' else T.le(T.ZERO, x)
            lo2 = T.lt(T.ZERO, y) if name == 'log' else T.le(T.ZERO, y)
            out.append(T.lor(T.lnot(T.land(lo, T.lt(x, y))), T.lt(a, b)))
            out.append(T.lor(T.lnot(T.land(lo2, T.lt(y, x))), T.lt(b, a)))
            out.append(T.lor(T.lnot(T.eq(x, y)), T.eq(a, b)))
            return out
        same = []
        for x, y in zip(aa, ba):
            if x is y:
                continue
            if x.op == 'c' and y.op == 'c':
                return []   # different constants: never equal
            same.append(T.eq(x, y))
        if not same:
            return []
        out.append(T.lor(T.lnot(T.land(*same)), T.eq(a, b)))
        return out

    def _closure(self, roots):
        """All atoms reachable from the roots including those introduced by
        lemmas; returns (atoms, lemma terms)."""
        atoms = {}
        lemmas = []
        work = [u for u in T.subterms(roots) if u.op == 'f']
        while work:
            a = work.pop()
            if a.id in atoms:
                continue
            if len(atoms) >= MAX_LEMMA_ATOMS:
                break
            atoms[a.id] = a
            ls = self._lemma_cache.get(a.id)
            if ls is None:
                ls = self._atom_lemmas(a)
                self._lemma_cache[a.id] = ls
            lemmas.extend(ls)
            for u in T.subterms(ls):
                if u.op == 'f' and u.id not in atoms:
                    work.append(u)
        # pairs
        by_name = {}
        for a in atoms.values():
            by_name.setdefault((a.args[0], len(a.args)), []).append(a)
        for group in by_name.values():
            group.sort(key=lambda a: a.id)
            for i in range(len(group)):
                for j in range(i + 1, len(group)):
                    lemmas.extend(self._pair_lemmas(group[i], group[j]))
        return atoms, lemmas

    # ------------------------------------------------------------ queries
    def _solve(self, conds, want_model=False, timeout_ms=None, roots=()):
        conds = [c for c in conds if c is not T.TRUE]
        if any(c is T.FALSE for c in conds):
            return 'unsat', None
        atoms, lemmas = self._closure(conds + list(roots))
        s = z3.Solver()
        s.set('timeout', int(timeout_ms or self.timeout_ms))
        for c in conds:
            s.add(self.z(c))
        for l in lemmas:
            if l is T.TRUE:
                continue
            s.add(self.z(l))
        names = T.variables(conds + lemmas)
        if 'pi' in names:
            pi = z3.Real('pi')
            s.add(pi > z3.RealVal('3.14159'), pi < z3.RealVal('3.1416'))
        t0 = time.time()
        r = s.check()
        dt = time.time() - t0
        st = self.stats
        st.queries += 1
        st.seconds += dt
        st.max_seconds = max(st.max_seconds, dt)
        if r == z3.unsat:
            st.unsat += 1
            return 'unsat', None
        if r == z3.sat:
            st.sat += 1
            if not want_model:
                return 'sat', None
            m = s.model()
            env = {}
            for n in names:
                env[n] = _num(m.eval(z3.Real(n), model_completion=True))
            # the values the model gives to applications of the uninterpreted
            # symbols (the float replay can adopt them: a counter-example may
            # need, say, a non-positive model output at one time point)
            ufv = []
            for a in atoms.values():
                if not isinstance(a.args[0], str) or a.args[0] in _BUILTIN:
                    continue
                try:
                    val = _num(m.eval(self.z(a), model_completion=True))
                    args = [_num(m.eval(self.z(x), model_completion=True))
                            for x in a.args[1:]]
                    ufv.append([a.args[0], [float(x) for x in args],
                                float(val)])
                except Exception:
                    continue
            if ufv:
                env['__uf__'] = ufv
            return 'sat', env
        st.unknown += 1
        return 'unknown', None

    def canon_values(self, conds, terms, env, fns):
        """Numerical value of the canonical (stage 1) form of each term at
        ``env`` -- compared by the harness with the value of the original
        term to validate the canonicaliser on every proved obligation."""
        from .canon import eval_key, Unsupported
        nz, pos = self._facts(conds)
        first = Canon(nz, positive=pos)
        for t in terms:
            first.lin(t)
        cn = Canon(nz, first.structural_sums(), positive=pos)
        out = []
        for t in terms:
            try:
                out.append(eval_key(cn.lin(t).key(), env, fns))
            except (Unsupported, ValueError, ZeroDivisionError,
                    OverflowError, KeyError):
                out.append(None)
        return out

    def lemma_terms(self, roots):
        """The instantiated lemmas (boolean Terms) a query over ``roots``
        would assert."""
        return self._closure(list(roots))[1]

    def feasible(self, conds):
        return self._solve(conds)[0]

    def model(self, conds, timeout_ms=None):
        return self._solve(conds, want_model=True, timeout_ms=timeout_ms)

    def prove(self, assumptions, goal, timeout_ms=None):
        """Is ``goal`` valid under the assumptions?  Returns
        ('proved', None) | ('refuted', env) | ('unknown', None)."""
        if goal is T.TRUE:
            return 'proved', None
        # stage 1: linear arithmetic over opaque non-linear sub-terms
        self.last_stage = 2
        if self._solve_linear(list(assumptions) + [T.lnot(goal)]) == 'unsat':
            self.last_stage = 1
            return 'proved', None
        r, env = self._solve(list(assumptions) + [T.lnot(goal)],
                             want_model=True, timeout_ms=timeout_ms)
        if r == 'unsat':
            return 'proved', None
        if r == 'sat':
            return 'refuted', env
        return 'unknown', None


def _nonzero_terms(c):
    op = c.op
    if op == '<':
        a, b = c.args
        if a is T.ZERO:
            yield b
        elif b is T.ZERO:
            yield a
    elif op == 'not':
        d = c.args[0]
        if d.op == '<=':
            a, b = d.args
            if a is T.ZERO:
                yield b
            elif b is T.ZERO:
                yield a
        elif d.op == '==':
            a, b = d.args
            if a is T.ZERO:
                yield b
            elif b is T.ZERO:
                yield a
    elif op == 'and':
        for a in c.args:
            for t in _nonzero_terms(a):
                yield t


def _num(v):
    if z3.is_rational_value(v):
        return Fraction(v.numerator_as_long(), v.denominator_as_long())
    if z3.is_algebraic_value(v):
        a = v.approx(30)
        return Fraction(a.numerator_as_long(), a.denominator_as_long())
    try:
        return Fraction(str(v))
    except Exception:
        return Fraction(0)
