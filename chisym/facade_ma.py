"""
numpy.ma for symbolic payloads.

Real ``numpy.ma`` cannot hold symbolic values (its domain checks call
``isfinite`` on a plain object view and write a string fill value into the
data), so the ``np.ma.array`` of chi's population filters is replaced, for
object payloads only, by ``MaskedObj``: an object ndarray plus a boolean mask
with the documented numpy.ma semantics for the operations chi applies
(element-wise arithmetic: masks are OR-ed; ``log``/``exp``: element-wise on
unmasked cells; ``sum``/``max`` over an axis: masked cells are skipped, a
fully masked slice is masked; basic indexing applies to data and mask;
``count``/``getmask``/``getdata``; any other ``np.ma`` function applied to a
stub raises, i.e. the run is reported as a harness error rather than decided
on a wrong model).
Every case that uses it is cross-checked against the real numpy.ma by the
differential float run of the same case.
"""
import numpy as _np

from . import terms as T
from .sym import Sym


class _Masked(object):
    """the numpy.ma.masked constant"""

    def __repr__(self):
        return 'masked'


MASKED = _Masked()
_ZERO = Sym(T.ZERO)


def _parts(x):
    if isinstance(x, MaskedObj):
        return x.data, x.mask
    a = _np.asarray(x, dtype=object) if not isinstance(x, _np.ndarray) else x
    return a, _np.zeros(a.shape, dtype=bool)


class MaskedObj(object):
    __array_priority__ = 1000
    __array_ufunc__ = None      # ndarray defers binary operators to us

    def __init__(self, data, mask):
        self.data = _np.asarray(data, dtype=object)
        self.mask = _np.broadcast_to(
            _np.asarray(mask, dtype=bool), self.data.shape).copy()

    # -- container protocol
    @property
    def shape(self):
        return self.data.shape

    @property
    def ndim(self):
        return self.data.ndim

    @property
    def size(self):
        # (numpy.ma: number of cells, masked ones included)
        return self.data.size

    @property
    def dtype(self):
        return self.data.dtype

    @property
    def T(self):
        return MaskedObj(self.data.T, self.mask.T)

    def count(self, axis=None, keepdims=False):
        return _np.sum(~self.mask, axis=axis, keepdims=keepdims)

    def copy(self):
        return MaskedObj(self.data.copy(), self.mask.copy())

    def __len__(self):
        return len(self.data)

    def __getitem__(self, idx):
        d = self.data[idx]
        m = self.mask[idx]
        if isinstance(d, _np.ndarray):
            return MaskedObj(d, m)
        return MASKED if m else d

    def __setitem__(self, idx, val):
        if isinstance(val, MaskedObj):
            self.data[idx] = val.data
            self.mask[idx] = val.mask
        else:
            self.data[idx] = val
            self.mask[idx] = False

    def flatten(self):
        return MaskedObj(self.data.flatten(), self.mask.flatten())

    def reshape(self, *shape):
        return MaskedObj(self.data.reshape(*shape), self.mask.reshape(*shape))

    # -- element-wise arithmetic
    def _bin(self, other, f):
        a, ma = self.data, self.mask
        b, mb = _parts(other)
        ab, bb = _np.broadcast_arrays(a, b)
        mask = _np.broadcast_to(ma, ab.shape) | _np.broadcast_to(mb, ab.shape)
        out = _np.empty(ab.shape, dtype=object)
        for idx in _np.ndindex(*ab.shape):
            out[idx] = _ZERO if mask[idx] else f(ab[idx], bb[idx])
        return MaskedObj(out, mask)

    def __add__(self, o):
        return self._bin(o, lambda x, y: x + y)

    def __radd__(self, o):
        return self._bin(o, lambda x, y: y + x)

    def __sub__(self, o):
        return self._bin(o, lambda x, y: x - y)

    def __rsub__(self, o):
        return self._bin(o, lambda x, y: y - x)

    def __mul__(self, o):
        return self._bin(o, lambda x, y: x * y)

    def __rmul__(self, o):
        return self._bin(o, lambda x, y: y * x)

    def __truediv__(self, o):
        return self._bin(o, lambda x, y: x / y)

    def __rtruediv__(self, o):
        return self._bin(o, lambda x, y: y / x)

    def __pow__(self, k):
        return self.map(lambda x: x ** k)

    def __neg__(self):
        return self.map(lambda x: -x)

    def __iadd__(self, o):
        r = self + o
        self.data, self.mask = r.data, r.mask
        return self

    def map(self, f):
        out = _np.empty(self.data.shape, dtype=object)
        for idx in _np.ndindex(*self.data.shape):
            out[idx] = _ZERO if self.mask[idx] else f(self.data[idx])
        return MaskedObj(out, self.mask)

    # -- reductions
    def _reduce(self, f, axis=None, keepdims=False):
        if axis is None:
            vals = [self.data[i] for i in _np.ndindex(*self.shape)
                    if not self.mask[i]]
            if not vals:
                return MASKED
            return f(vals)
        if isinstance(axis, tuple):
            r = self
            for ax in sorted(axis, reverse=True):
                r = r._reduce(f, ax, keepdims)
            return r
        d = _np.moveaxis(self.data, axis, -1)
        m = _np.moveaxis(self.mask, axis, -1)
        out = _np.empty(d.shape[:-1], dtype=object)
        om = _np.zeros(d.shape[:-1], dtype=bool)
        for idx in _np.ndindex(*d.shape[:-1]):
            vals = [d[idx][k] for k in range(d.shape[-1]) if not m[idx][k]]
            if vals:
                out[idx] = f(vals)
            else:
                out[idx] = _ZERO
                om[idx] = True
        if keepdims:
            out = _np.expand_dims(out, axis)
            om = _np.expand_dims(om, axis)
        return MaskedObj(out, om)

    def sum(self, axis=None, keepdims=False, **k):
        def s(vals):
            r = vals[0]
            for v in vals[1:]:
                r = r + v
            return r
        return self._reduce(s, axis, keepdims)

    def max(self, axis=None, keepdims=False, **k):
        def mx(vals):
            r = vals[0]
            for v in vals[1:]:
                if bool(v > r):
                    r = v
            return r
        return self._reduce(mx, axis, keepdims)

    # -- numpy function protocol (np.sum, np.max, np.squeeze, ...)
    def __array_function__(self, func, types, args, kwargs):
        name = func.__name__
        if name == 'sum':
            return args[0].sum(*args[1:], **kwargs) if isinstance(
                args[0], MaskedObj) else NotImplemented
        if name in ('max', 'amax'):
            return args[0].max(*args[1:], **kwargs)
        if name == 'squeeze':
            ax = kwargs.get('axis', args[1] if len(args) > 1 else None)
            return MaskedObj(_np.squeeze(self.data, axis=ax),
                             _np.squeeze(self.mask, axis=ax))
        if name == 'shape':
            return self.shape
        if name == 'asarray':
            return self
        return NotImplemented


class MA(object):
    """stands in for ``np.ma`` inside chi modules"""

    masked = MASKED

    def array(self, data, mask=False, **k):
        a = _np.asarray(data)
        if a.dtype != object:
            return _np.ma.array(data, mask=mask, **k)
        return MaskedObj(a, mask)

    def is_masked(self, x):
        if x is MASKED:
            return True
        if isinstance(x, MaskedObj):
            return bool(x.mask.any())
        return _np.ma.is_masked(x)

    def count(self, a, axis=None, keepdims=False):
        if not isinstance(a, MaskedObj):
            return _np.ma.count(a, axis=axis, keepdims=keepdims)
        return _np.sum(~a.mask, axis=axis, keepdims=keepdims)

    def getmaskarray(self, a):
        if isinstance(a, MaskedObj):
            return a.mask.copy()
        return _np.ma.getmaskarray(a)

    def getmask(self, a):
        if isinstance(a, MaskedObj):
            return a.mask.copy() if a.mask.any() else _np.ma.nomask
        return _np.ma.getmask(a)

    def getdata(self, a):
        if isinstance(a, MaskedObj):
            return a.data
        return _np.ma.getdata(a)

    def sum(self, a, axis=None, keepdims=False, **k):
        if isinstance(a, MaskedObj):
            return a.sum(axis=axis, keepdims=keepdims)
        return _np.ma.sum(a, axis=axis, keepdims=keepdims, **k)

    def max(self, a, axis=None, keepdims=False, **k):
        if isinstance(a, MaskedObj):
            return a.max(axis=axis, keepdims=keepdims)
        return _np.ma.max(a, axis=axis, keepdims=keepdims, **k)

    def __getattr__(self, name):
        real = getattr(_np.ma, name)
        if not callable(real) or isinstance(real, type):
            return real

        def guarded(*a, **k):
            # anything not modelled above must not silently treat the stub
            # as a plain array (masked cells would be counted as data)
            if any(isinstance(x, MaskedObj) for x in a) or any(
                    isinstance(x, MaskedObj) for x in k.values()):
                raise NotImplementedError(
                    'numpy.ma.%s is not modelled for symbolic payloads'
                    % name)
            return real(*a, **k)
        return guarded
