"""
Linear abstraction with canonical monomials (stage 1 of every validity query).

A term is mapped to  const + sum_k coeff_k * M_k  where every M_k is an opaque
real identified by a *canonical key* of a monomial  prod base^e / prod base^e.
Two terms get the same key only if they are equal by associativity,
commutativity, the power laws and distribution of a monomial over a sum; no
factor is ever cancelled between numerator and denominator (so nothing is
assumed about denominators being non-zero), and products of two sums are not
expanded.  Validity of a formula under this abstraction (all M_k universally
quantified, linear real arithmetic) therefore implies validity of the
original formula: it is a sound, incomplete first stage; whatever it does not
prove goes to the precise non-linear encoding.
"""
from fractions import Fraction

from . import terms as T


_INTERN = {}
_KIND = {}
_KEY = {}


def intern_key(k):
    """Structural keys are interned to small integers so that nested keys
    stay cheap to hash and sort."""
    r = _INTERN.get(k)
    if r is None:
        r = len(_INTERN) + 1
        _INTERN[k] = r
        _KIND[r] = k[0]
        _KEY[r] = k
    return r


class Lin(object):
    __slots__ = ('const', 'coef')

    def __init__(self, const=Fraction(0), coef=None):
        self.const = const
        self.coef = coef or {}

    def key(self):
        return intern_key(('lin', self.const, tuple(sorted(
            self.coef.items()))))

    def scaled(self, c):
        if c == 0:
            return Lin()
        return Lin(self.const * c, {k: v * c for k, v in self.coef.items()})

    def plus(self, o, sign=1):
        coef = dict(self.coef)
        for k, v in o.coef.items():
            nv = coef.get(k, 0) + sign * v
            if nv == 0:
                coef.pop(k, None)
            else:
                coef[k] = nv
        return Lin(self.const + sign * o.const, coef)

    def single(self):
        """(coeff, monokey) if this is exactly one monomial, else None."""
        if self.const == 0 and len(self.coef) == 1:
            (k, v), = self.coef.items()
            return v, k
        return None


_MONO = {}


def _mono_key(num, den, nz=None):
    """Interned monomial; bases are interned ints.  Bases known to be
    non-zero (``nz``) are cancelled between numerator and denominator."""
    if nz and num and den:
        for b in [b for b in num if b in den and b in nz]:
            e = min(num[b], den[b])
            num = dict(num)
            den = dict(den)
            num[b] -= e
            den[b] -= e
            if num[b] == 0:
                del num[b]
            if den[b] == 0:
                del den[b]
    k = ('m', tuple(sorted(num.items())), tuple(sorted(den.items())))
    r = intern_key(k)
    _MONO[r] = k
    return r


def _parts(mk):
    k = _MONO[mk]
    return dict(k[1]), dict(k[2])


def _mono_mul(a, b):
    """a, b: (num dict, den dict) -> product, no cancellation."""
    num = dict(a[0])
    for k, e in b[0].items():
        num[k] = num.get(k, 0) + e
    den = dict(a[1])
    for k, e in b[1].items():
        den[k] = den.get(k, 0) + e
    return num, den


class Canon(object):
    def __init__(self, nonzero=None, protected=None, positive=None):
        self._lin = {}
        self._bool = {}
        self.nz = set(nonzero or ())
        # bases known to be > 0 (needed for the sqrt rules)
        self.pos = set(positive or ())
        self.pos.add(intern_key(('v', 'pi')))
        self.nz |= self.pos
        # sums that occur as a base of a denominator or of a power: a
        # monomial is never distributed over them
        self.protected = set(protected or ())
        self._seen = set()
        self._sumlin = {}

    def structural_sums(self):
        """Interned 'sum' bases that occur in a denominator or with an
        exponent >= 2 in any monomial built by this instance."""
        out = set()
        for mk in self._seen:
            k = _MONO[mk]
            for b, e in k[1]:
                if e >= 2 and _KIND.get(b) == 'sum':
                    out.add(b)
            for b, e in k[2]:
                if _KIND.get(b) == 'sum':
                    out.add(b)
        return out

    def mk(self, num, den):
        return _mono_key(num, den, self.nz)

    def term(self, num, den, coeff):
        """coeff * monomial as a Lin (a fully cancelled monomial is the
        constant 1)."""
        num, den, coeff = self._sqrt_powers(num, den, coeff)
        k = _mono_key(num, den, self.nz)
        self._seen.add(k)
        if _MONO[k][1] == () and _MONO[k][2] == ():
            return Lin(coeff)
        return Lin(Fraction(0), {k: coeff})

    def _sqrt_powers(self, num, den, coeff):
        """sqrt(c)^2 = c for a constant c >= 0 and sqrt(b)^2 = b for a base
        b known to be positive."""
        for side in (0, 1):
            d = num if side == 0 else den
            for b in list(d):
                e = d[b]
                if e < 2:
                    continue
                kind = _KIND.get(b)
                if kind not in ('sqrtc', 'sqrtb', 'abs'):
                    continue
                if d is num and side == 0:
                    num = dict(num)
                    d = num
                elif side == 1:
                    den = dict(den)
                    d = den
                q, r = divmod(e, 2)
                if r:
                    d[b] = r
                else:
                    del d[b]
                inner = _KEY[b][1]
                if kind == 'sqrtc':
                    coeff = coeff * (inner ** q if side == 0
                                     else Fraction(1) / inner ** q)
                elif kind == 'abs':
                    d[inner] = d.get(inner, 0) + 2 * q
                else:
                    d[inner] = d.get(inner, 0) + q
        return num, den, coeff

    def positive_base(self, t):
        """If 0 < t pins one base as positive, return it."""
        l = self.lin(t)
        if l.const == 0 and len(l.coef) == 1:
            (k, v), = l.coef.items()
            n, d = _parts(k)
            if v > 0 and len(n) == 1 and not d and list(n.values()) == [1]:
                return list(n)[0]
            return None
        if len(l.coef) + (l.const != 0) > 1:
            c0, num, den, base = self._sumbase(l)
            if c0 > 0 and not num and not den:
                return base
        return None

    def _sqrt_of(self, l):
        """Canonical form of sqrt(l) or None."""
        if not l.coef:
            c = l.const
            if c < 0:
                return None
            return self._sqrt_const(c)
        s = l.single()
        if s is None:
            c0, num, den, base = self._sumbase(l)
            if num or den or c0 <= 0 or base not in self.pos:
                return None
            out = self._sqrt_const(c0)
            sb = intern_key(('sqrtb', base))
            self.pos.add(sb)
            return self._mul(out, self.term({sb: 1}, {}, Fraction(1)))
        c, k = s
        if c <= 0:
            return None
        n, d = _parts(k)
        out = self._sqrt_const(c)
        for side, dd in ((0, n), (1, d)):
            for b, e in dd.items():
                if b not in self.pos:
                    if e % 2 == 0 and b in self.nz:
                        ab = intern_key(('abs', b))
                        self.pos.add(ab)
                        self.nz.add(ab)
                        out = self._mul(out, self.term(
                            {ab: e // 2} if side == 0 else {},
                            {ab: e // 2} if side == 1 else {}, Fraction(1)))
                        continue
                    return None
                q, r = divmod(e, 2)
                nn, dn = {}, {}
                tgt = nn if side == 0 else dn
                if q:
                    tgt[b] = q
                if r:
                    if _KIND.get(b) == 'f' and _KEY[b][1] == 'exp':
                        return None
                    sb = intern_key(('sqrtb', b))
                    self.pos.add(sb)
                    tgt[sb] = 1
                out = self._mul(out, self.term(nn, dn, Fraction(1)))
        return out

    def _sqrt_const(self, c):
        p, q = c.numerator * c.denominator, c.denominator
        # sqrt(p/q) = sqrt(p*q)/q ; pull square factors out of p*q
        out = 1
        f = 2
        while f * f <= p and f < 2000:
            while p % (f * f) == 0:
                p //= f * f
                out *= f
            f += 1
        coeff = Fraction(out, q)
        if p == 1:
            return Lin(coeff)
        sb = intern_key(('sqrtc', Fraction(p)))
        self.pos.add(sb)
        return self.term({sb: 1}, {}, coeff)

    # -- exp / log ---------------------------------------------------------
    def _exp_of(self, l):
        """exp(c0 + sum q_k M_k) = e^c0 * prod E(M_k)^q_k with positive
        opaque bases E(M_k); exp(q log b) = b^q for a positive base b."""
        num, den = {}, {}

        def put(b, e):
            self.pos.add(b)
            self.nz.add(b)
            tgt = num if e > 0 else den
            tgt[b] = tgt.get(b, 0) + abs(e)
        if l.const != 0:
            put(intern_key(('expc', l.const)), 1)
        for k, q in l.coef.items():
            n, d = _parts(k)
            if len(n) == 1 and not d and list(n.values()) == [1] and \
                    _KIND.get(list(n)[0]) in ('logb', 'logc') and \
                    q.denominator in (1, 2):
                kind = _KIND[list(n)[0]]
                inner = _KEY[list(n)[0]][1]
                tgt = num if q > 0 else den
                if kind == 'logb':
                    if q.denominator == 1:
                        tgt[inner] = tgt.get(inner, 0) + abs(int(q))
                    else:
                        sb = intern_key(('sqrtb', inner))
                        self.pos.add(sb)
                        self.nz.add(sb)
                        tgt[sb] = tgt.get(sb, 0) + abs(q.numerator)
                else:
                    # exp(q log n) = n^q
                    sb = intern_key(('sqrtc', Fraction(inner)))
                    self.pos.add(sb)
                    self.nz.add(sb)
                    tgt[sb] = tgt.get(sb, 0) + abs(q.numerator) * (
                        2 if q.denominator == 1 else 1)
                continue
            if q.denominator == 1:
                put(intern_key(('expm', k)), int(q))
            elif q > 0:
                put(intern_key(('expq', k, q)), 1)
            else:
                put(intern_key(('expq', k, -q)), -1)
        if not num and not den:
            return Lin(Fraction(1))
        return self.term(num, den, Fraction(1))

    def _log_const(self, c):
        """log of a positive rational as a combination of log(prime)."""
        out = Lin()
        for val, sign in ((c.numerator, 1), (c.denominator, -1)):
            f = 2
            while f * f <= val and f < 1000:
                e = 0
                while val % f == 0:
                    val //= f
                    e += 1
                if e:
                    out = out.plus(self.term(
                        {intern_key(('logc', f)): 1}, {}, Fraction(sign * e)))
                f += 1
            if val > 1:
                out = out.plus(self.term(
                    {intern_key(('logc', val)): 1}, {}, Fraction(sign)))
        return out

    def _log_base(self, b):
        kind = _KIND.get(b)
        key = _KEY.get(b)
        if kind == 'expm':
            return Lin(Fraction(0), {key[1]: Fraction(1)})
        if kind == 'expq':
            return Lin(Fraction(0), {key[1]: key[2]})
        if kind == 'expc':
            return Lin(key[1])
        if kind == 'sqrtb':
            return self._log_base(key[1]).scaled(Fraction(1, 2))
        if kind == 'sqrtc':
            return self._log_const(key[1]).scaled(Fraction(1, 2))
        return self.term({intern_key(('logb', b)): 1}, {}, Fraction(1))

    def _pos_lin(self, l):
        """all terms positive -> the sum is positive"""
        if l.const < 0 or not l.coef:
            return l.const > 0
        for k, v in l.coef.items():
            if v <= 0:
                return False
            n, d = _parts(k)
            for b in list(n) + list(d):
                if b not in self.pos:
                    return False
        return True

    def _log_of(self, l):
        """log(c * prod b^e) = log c + sum e log b for positive c and b;
        log of a sum: the common positive monomial is pulled out."""
        if not l.coef:
            if l.const <= 0:
                return None
            return self._log_const(l.const)
        s = l.single()
        if s is not None:
            c, k = s
            n, d = _parts(k)
            base = None
        else:
            c, n, d, base = self._sumbase(l)
            if base not in self.pos:
                if c > 0 and self._pos_lin(l):
                    self.pos.add(base)
                    self.nz.add(base)
                else:
                    return None
        if c <= 0:
            return None
        for dd in (n, d):
            for b, e in list(dd.items()):
                if b not in self.pos:
                    if e % 2 == 0 and b in self.nz:
                        ab = intern_key(('abs', b))
                        self.pos.add(ab)
                        self.nz.add(ab)
                        del dd[b]
                        dd[ab] = dd.get(ab, 0) + e
                    else:
                        return None
        out = self._log_const(c)
        for b, e in n.items():
            out = out.plus(self._log_base(b).scaled(Fraction(e)))
        for b, e in d.items():
            out = out.plus(self._log_base(b).scaled(Fraction(-e)))
        if base is not None:
            out = out.plus(self._log_base(base))
        return out

    def nonzero_bases(self, t):
        """Bases that must be non-zero if the term t is non-zero."""
        l = self.lin(t)
        out = set()
        if not l.coef:
            return out
        s = l.single()
        if s is not None:
            n, d = _parts(s[1])
            out.update(n)
            return out
        c0, num, den, base = self._sumbase(l)
        out.update(num)
        out.add(base)
        return out

    def lin(self, t):
        r = self._lin.get(t.id)
        if r is not None:
            return r
        for u in T.subterms([t]):
            if u.id in self._lin or u.op in (
                    '<', '<=', '==', 'not', 'and', 'or', 'true', 'false'):
                continue
            self._lin[u.id] = self._go(u)
        return self._lin[t.id]

    # a Lin as (coeff, (num, den)) factors when it is a single monomial,
    # otherwise an opaque 'sum' base
    def _as_factor(self, l):
        """-> (coeff, num dict, den dict)"""
        if not l.coef:
            return l.const, {}, {}
        s = l.single()
        if s is not None:
            c, k = s
            n, d = _parts(k)
            return c, n, d
        c0, num, den, base = self._sumbase(l)
        num = dict(num)
        num[base] = num.get(base, 0) + 1
        return c0, num, den

    def _sumbase(self, l):
        """l = c0 * M * l' where M is the monomial common to all terms of l
        and l' has leading coefficient 1 (at its smallest monomial key);
        returns (c0, num of M, den of M, interned base of l').  Makes
        2*pi*s, -s and s share the base s."""
        num, den = {}, {}
        if l.const == 0 and len(l.coef) > 1:
            parts = [_parts(k) for k in l.coef]
            for side, acc in ((0, num), (1, den)):
                common = dict(parts[0][side])
                for p in parts[1:]:
                    for b in list(common):
                        e = min(common[b], p[side].get(b, 0))
                        if e <= 0:
                            del common[b]
                        else:
                            common[b] = e
                acc.update(common)
            if num or den:
                coef = {}
                for k, v in l.coef.items():
                    n, d = _parts(k)
                    for b, e in num.items():
                        n[b] -= e
                        if n[b] == 0:
                            del n[b]
                    for b, e in den.items():
                        d[b] -= e
                        if d[b] == 0:
                            del d[b]
                    if not n and not d:
                        coef[None] = coef.get(None, 0) + v
                    else:
                        t = self.term(n, d, v)
                        if not t.coef:
                            coef[None] = coef.get(None, 0) + t.const
                        else:
                            (kk, vv), = t.coef.items()
                            coef[kk] = coef.get(kk, 0) + vv
                c = coef.pop(None, Fraction(0))
                l = Lin(c, coef)
        # sums of exponentials: l and M * l (M a non-zero monomial) must get
        # the same base (log-sum-exp shifts).  Divide by one of the terms;
        # which one is decided by a total order on the *results*, so that
        # every member of the class {M * l} picks the same representative.
        if self._has_exp(l):
            cands = []
            terms = list(l.coef.items())
            if l.const != 0:
                terms.append((None, l.const))
            for k, v in terms:
                n, d = ({}, {}) if k is None else _parts(k)
                if not all(b in self.nz for b in list(n) + list(d)):
                    continue
                cand = self._scale_by_mono(l, d, n, Fraction(1) / v)
                cands.append((cand.key(), cand, v, n, d))
            if cands:
                _, l, v, n, d = min(cands, key=lambda c: c[0])
                num, den = _mono_mul((num, den), (n, d))
                b = intern_key(('sum', l.key()))
                self._sumlin[b] = l
                return v, num, den, b
        if l.coef:
            k0 = min(l.coef)
            c0 = l.coef[k0]
        else:
            c0 = l.const
        ln = l.scaled(Fraction(1) / c0)
        b = intern_key(('sum', ln.key()))
        self._sumlin[b] = ln
        return c0, num, den, b

    def expand_numerators(self, d, rounds=4):
        """expand every sum that occurs as a numerator factor"""
        for _ in range(rounds):
            changed = False
            out = Lin(d.const)
            for k, v in d.coef.items():
                n, dd = _parts(k)
                sums = [(b, e) for b, e in n.items()
                        if _KIND.get(b) == 'sum' and b in self._sumlin
                        and e <= 4]
                if not sums:
                    out = out.plus(Lin(Fraction(0), {k: v}))
                    continue
                changed = True
                for b, e in sums:
                    del n[b]
                t = self.term(n, dd, v)
                for b, e in sums:
                    for _i in range(e):
                        t = self._mul_expand(t, self._sumlin[b])
                out = out.plus(t)
            d = out
            if not changed or len(d.coef) > 600:
                break
        return d

    def residual_is_zero(self, d):
        if not d.coef and d.const == 0:
            return True
        for _ in range(3):
            d = self.expand_numerators(d)
            if not d.coef and d.const == 0:
                return True
            d2 = self.clear_denominators(d)
            if not d2.coef and d2.const == 0:
                return True
            if d2.key() == d.key():
                return False
            d = d2
        return False

    def clear_denominators(self, d, rounds=6):
        """d == 0  <=>  d * S^k == 0 for a non-zero sum S: multiply the
        residual by the sums occurring in its denominators and expand them.
        Returns the cleared residual (a Lin)."""
        for _ in range(rounds):
            target = None
            kmax = 0
            for k in d.coef:
                n, dd = _parts(k)
                for b, e in dd.items():
                    if _KIND.get(b) == 'sum' and b in self.nz and \
                            b in self._sumlin:
                        if e > kmax:
                            target, kmax = b, e
            if target is None:
                return d
            S = self._sumlin[target]
            out = Lin()
            if d.const != 0:
                t = Lin(d.const)
                for _i in range(kmax):
                    t = self._mul_expand(t, S)
                out = out.plus(t)
            for k, v in d.coef.items():
                n, dd = _parts(k)
                e = dd.pop(target, 0)
                # numerator occurrences of the same sum are expanded too
                en = n.pop(target, 0)
                t = self.term(n, dd, v)
                for _i in range(kmax - e + en):
                    t = self._mul_expand(t, S)
                out = out.plus(t)
            d = out
            if len(d.coef) > 400:
                return d
        return d

    def _mul_expand(self, a, b):
        """full distribution of two Lins (no opaque products)"""
        out = Lin(a.const * b.const)
        for k, v in a.coef.items():
            if b.const != 0:
                out = out.plus(Lin(Fraction(0), {k: v * b.const}))
            for k2, v2 in b.coef.items():
                n, d = _mono_mul(_parts(k), _parts(k2))
                out = out.plus(self.term(n, d, v * v2))
        if a.const != 0:
            for k2, v2 in b.coef.items():
                out = out.plus(Lin(Fraction(0), {k2: v2 * a.const}))
        return out

    def _has_exp(self, l):
        for k in l.coef:
            n, d = _parts(k)
            for b in list(n) + list(d):
                if _KIND.get(b) in ('expm', 'expq', 'expc'):
                    return True
        return False

    def _scale_by_mono(self, l, n, d, c):
        """(c * n/d) * l, distributed term by term"""
        out = Lin()
        if l.const != 0:
            out = out.plus(self.term(dict(n), dict(d), c * l.const))
        for k, v in l.coef.items():
            nn, dd = _mono_mul((n, d), _parts(k))
            out = out.plus(self.term(nn, dd, c * v))
        return out

    def _go(self, u):
        op = u.op
        g = lambda a: self._lin[a.id]
        if op == 'c':
            return Lin(u.args[0])
        if op == 'v':
            return self.term({intern_key(('v', u.args[0])): 1}, {}, Fraction(1))
        if op == '+':
            return g(u.args[0]).plus(g(u.args[1]))
        if op == '-':
            return g(u.args[0]).plus(g(u.args[1]), -1)
        if op == 'neg':
            return g(u.args[0]).scaled(Fraction(-1))
        if op == '*':
            a, b = g(u.args[0]), g(u.args[1])
            return self._mul(a, b)
        if op == '/':
            a, b = g(u.args[0]), g(u.args[1])
            cb, nb, db = self._as_factor(b)
            if cb == 0:
                # division by the constant 0 cannot be built (terms.div)
                return self.term({intern_key(('raw', u.id)): 1}, {},
                                 Fraction(1))
            inv = self.term(db, nb, Fraction(1) / cb) \
                if (nb or db) else Lin(Fraction(1) / cb)
            return self._mul(a, inv)
        if op == '^':
            a = g(u.args[0])
            k = u.args[1]
            c, n, d = self._as_factor(a)
            n = {b: e * k for b, e in n.items()}
            d = {b: e * k for b, e in d.items()}
            if not n and not d:
                return Lin(c ** k)
            return self.term(n, d, c ** k)
        if op == 'f':
            if u.args[0] == 'sqrt':
                r = self._sqrt_of(g(u.args[1]))
                if r is not None:
                    return r
            elif u.args[0] == 'exp':
                return self._exp_of(g(u.args[1]))
            elif u.args[0] == 'log':
                r = self._log_of(g(u.args[1]))
                if r is not None:
                    return r
            key = intern_key(
                ('f', u.args[0]) + tuple(g(a).key() for a in u.args[1:]))
            return self.term({key: 1}, {}, Fraction(1))
        if op == 'ite':
            key = intern_key(('ite', self.boolkey(u.args[0]),
                              g(u.args[1]).key(), g(u.args[2]).key()))
            return self.term({key: 1}, {}, Fraction(1))
        raise TypeError(op)

    def _mul(self, a, b):
        # constant times anything / monomial times sum: distribute
        if not a.coef:
            return b.scaled(a.const)
        if not b.coef:
            return a.scaled(b.const)
        sa, sb = a.single(), b.single()
        if sa is not None and sb is not None:
            n, d = _mono_mul(_parts(sa[1]), _parts(sb[1]))
            return self.term(n, d, sa[0] * sb[0])
        if sa is not None or sb is not None:
            m, s = (sa, b) if sa is not None else (sb, a)
            mc, mk = m
            mono = _parts(mk)
            if self.protected and len(s.coef) + (s.const != 0) > 1:
                c0, num, den, base = self._sumbase(s)
                if base in self.protected:
                    num = dict(num)
                    num[base] = num.get(base, 0) + 1
                    n, d = _mono_mul(mono, (num, den))
                    return self.term(n, d, mc * c0)
            out = Lin()
            if s.const != 0:
                out = out.plus(Lin(Fraction(0), {mk: mc * s.const}))
            for k, v in s.coef.items():
                n, d = _mono_mul(mono, _parts(k))
                out = out.plus(self.term(n, d, mc * v))
            return out
        # sum times sum: opaque product of the two sums
        ca, na, da = self._as_factor(a)
        cb, nb, db = self._as_factor(b)
        n, d = _mono_mul((na, da), (nb, db))
        return self.term(n, d, ca * cb)

    def boolkey(self, c):
        r = self._bool.get(c.id)
        if r is not None:
            return r
        op = c.op
        if op in ('<', '<=', '=='):
            r = intern_key(
                (op, self.lin(c.args[0]).plus(self.lin(c.args[1]), -1).key()))
        elif op == 'not':
            r = intern_key(('not', self.boolkey(c.args[0])))
        elif op in ('and', 'or'):
            r = intern_key((op,) + tuple(self.boolkey(a) for a in c.args))
        else:
            r = intern_key((op,))
        self._bool[c.id] = r
        return r


# ---------------------------------------------------------------- validation
class Unsupported(Exception):
    pass


def eval_key(k, env, fns, memo=None):
    """Numerical value of an interned key (lin, mono or base): used to
    validate the canonicaliser against the original term at a witness."""
    import math
    memo = {} if memo is None else memo
    if k in memo:
        return memo[k]
    key = _KEY[k]
    tag = key[0]
    ev = lambda x: eval_key(x, env, fns, memo)
    if tag == 'lin':
        r = float(key[1])
        for mk, c in key[2]:
            r += float(c) * ev(mk)
    elif tag == 'm':
        r = 1.0
        for b, e in key[1]:
            r *= ev(b) ** e
        for b, e in key[2]:
            r /= ev(b) ** e
    elif tag == 'v':
        r = math.pi if key[1] == 'pi' and 'pi' not in env else env[key[1]]
    elif tag == 'sum':
        r = ev(key[1])
    elif tag == 'f':
        vals = [ev(a) for a in key[2:]]
        name = key[1]
        if name == 'log':
            r = math.log(vals[0])
        elif name == 'exp':
            r = math.exp(vals[0])
        elif name == 'sqrt':
            r = math.sqrt(vals[0])
        elif name == 'erf':
            r = math.erf(vals[0])
        else:
            r = fns(name, *vals)
    elif tag == 'sqrtc':
        r = math.sqrt(float(key[1]))
    elif tag == 'sqrtb':
        r = math.sqrt(ev(key[1]))
    elif tag == 'abs':
        r = abs(ev(key[1]))
    elif tag == 'expc':
        r = math.exp(float(key[1]))
    elif tag == 'expm':
        r = math.exp(ev(key[1]))
    elif tag == 'expq':
        r = math.exp(float(key[2]) * ev(key[1]))
    elif tag == 'logc':
        r = math.log(float(key[1]))
    elif tag == 'logb':
        r = math.log(ev(key[1]))
    elif tag == 'ite':
        r = ev(key[2]) if eval_bool(key[1], env, fns, memo) else ev(key[3])
    else:
        raise Unsupported(tag)
    memo[k] = r
    return r


def eval_bool(k, env, fns, memo):
    key = _KEY[k]
    tag = key[0]
    if tag in ('<', '<=', '=='):
        d = eval_key(key[1], env, fns, memo)
        return d < 0 if tag == '<' else (d <= 0 if tag == '<=' else d == 0)
    if tag == 'not':
        return not eval_bool(key[1], env, fns, memo)
    if tag == 'and':
        return all(eval_bool(a, env, fns, memo) for a in key[1:])
    if tag == 'or':
        return any(eval_bool(a, env, fns, memo) for a in key[1:])
    if tag == 'true':
        return True
    if tag == 'false':
        return False
    raise Unsupported(tag)
