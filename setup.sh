#!/bin/sh
# Builds the overlay venv /verif/.venv on top of /venv (offline, wheelhouse only).
set -e
cd "$(dirname "$0")"
if [ -x .venv/bin/python ] && .venv/bin/python -c "import z3, crosshair, chi" 2>/dev/null; then
    exit 0
fi
rm -rf .venv
/venv/bin/python -m venv .venv
SP=$(.venv/bin/python -c "import sysconfig; print(sysconfig.get_paths()['purelib'])")
echo "import site; site.addsitedir('/venv/lib/python3.12/site-packages')" > "$SP/_overlay.pth"
echo "/repo" > "$SP/_repo.pth"
PIP_NO_INDEX=1 .venv/bin/pip install -q --no-index --find-links /opt/veriftools/wheels z3-solver crosshair-tool jsonschema >/dev/null
.venv/bin/python -c "import z3, crosshair, chi, numpy; print('setup ok', z3.get_version_string())"
