"""
Population-model specifications written from the chi docstrings: factory,
documented densities, documented parameter order.  Used by C02, C05, C06, C07,
C13, C17, C18.
"""
import numpy as np

import chi

KINDS = ['gaussian', 'gaussian_nc', 'lognormal', 'lognormal_nc', 'truncgauss',
         'pooled', 'hetero']


def make(kind, n_dim=1, n_ids=1, ctor_ids=None):
    if kind == 'gaussian':
        m = chi.GaussianModel(n_dim=n_dim)
    elif kind == 'gaussian_nc':
        m = chi.GaussianModel(n_dim=n_dim, centered=False)
    elif kind == 'lognormal':
        m = chi.LogNormalModel(n_dim=n_dim)
    elif kind == 'lognormal_nc':
        m = chi.LogNormalModel(n_dim=n_dim, centered=False)
    elif kind == 'truncgauss':
        m = chi.TruncatedGaussianModel(n_dim=n_dim)
    elif kind == 'pooled':
        m = chi.PooledModel(n_dim=n_dim)
    elif kind == 'hetero':
        # ctor_ids: the number of individuals at construction differs from
        # the number set later (set_n_ids is the documented way to resize)
        m = chi.HeterogeneousModel(
            n_dim=n_dim, n_ids=n_ids if ctor_ids is None else ctor_ids)
    else:
        raise ValueError(kind)
    m.set_n_ids(n_ids)
    return m


def p_per_dim(kind, n_ids=1):
    if kind == 'pooled':
        return 1
    if kind == 'hetero':
        return n_ids
    return 2


def is_delta(kind):
    return kind in ('pooled', 'hetero')


def is_nc(kind):
    return kind.endswith('_nc')


def n_params(kind, n_dim, n_ids=1):
    return p_per_dim(kind, n_ids) * n_dim


def theta_vars(B, kind, n_dim, n_ids=1, prefix='th'):
    """Flat parameter vector in the documented order: parameter-major
    (all dims of the first parameter, then all dims of the second, ...)."""
    return [B.var('%s%d_%d' % (prefix, p, d))
            for p in range(p_per_dim(kind, n_ids)) for d in range(n_dim)]


def theta_matrix(theta, kind, n_dim, n_ids=1):
    p = p_per_dim(kind, n_ids)
    return [[theta[q * n_dim + d] for d in range(n_dim)] for q in range(p)]


def assume_support(B, kind, thm, obs=None):
    """thm: (p_per_dim x n_dim) matrix; obs: (n_ids x n_dim) or None."""
    if is_delta(kind):
        return
    for s in thm[1]:
        B.assume(s > 0)
    if obs is None:
        return
    if kind == 'lognormal':
        for row in obs:
            for x in row:
                B.assume(x > 0)
    if kind == 'truncgauss':
        for row in obs:
            for x in row:
                B.assume(x >= 0)


def std_normal(B, x):
    return -B.log(2 * B.pi) / 2 - x * x / 2


def norm_cdf(B, x):
    return (1 + B.erf(x / B.sqrt(2))) / 2


def logpdf(B, kind, th, x):
    """Documented log-density of one individual's parameter x in one
    dimension; th = [mu, sigma] of that dimension."""
    if is_nc(kind):
        return std_normal(B, x)
    mu, s = th
    if kind == 'gaussian':
        return -B.log(2 * B.pi * s * s) / 2 - (x - mu) ** 2 / (2 * s * s)
    if kind == 'lognormal':
        return -B.log(2 * B.pi * s * s) / 2 - B.log(x) \
            - (B.log(x) - mu) ** 2 / (2 * s * s)
    if kind == 'truncgauss':
        return -B.log(2 * B.pi * s * s) / 2 - (x - mu) ** 2 / (2 * s * s) \
            - B.log(1 - norm_cdf(B, -mu / s))
    raise ValueError(kind)


def transform(B, kind, th, eta):
    """Documented individual parameter for one dimension."""
    if kind == 'gaussian_nc':
        return th[0] + th[1] * eta
    if kind == 'lognormal_nc':
        return B.exp(th[0] + th[1] * eta)
    return eta


def arr(B, x):
    return np.array(x, dtype=object if B.symbolic else float)


def int_arr(B, x):
    """an array of an integer dtype: symbolic integer cells / the (already
    integral) float values cast to int"""
    if B.symbolic:
        from chisym.facade_np import int_array
        return int_array(x)
    return np.array(x, dtype=float).astype(int)
