"""C13 - filter posterior = prior + population + noise + filter terms; exact
gradient."""
import itertools

import numpy as np

import chi

from . import c02, c12, hier
from . import popspec as ps
from .stubs import SymMechModel, SymPrior

EXPLANATION = (
    'chi.PopulationFilterLogPosterior is built over the uninterpreted '
    'mechanistic model and prior, a real population filter on symbolic '
    'measurements and every population composition within the bound; the '
    'flat vector is symbolic.  A names-driven specification interpreter '
    '(published names and IDs only) rebuilds log-prior + population '
    'log-density of the simulated individuals + filter log-likelihood of '
    'Y(psi_s) + sigma*eps (or * exp(sigma*eps)) at the sorted times; z3 '
    'decides that value - reference + sum eps^2/2 has zero derivative in '
    'every entry (the parameter-independent constant), and that evaluateS1 '
    'returns the symbolic derivative of the value in every entry.')


def build(B, cfg):
    units = cfg['units']
    n_s = cfg['n_samples']
    n_out = cfg.get('n_out', 1)
    times = cfg['times']
    n_t = len(times)
    D = hier.total_dim(units)
    mm = SymMechModel(B, n_params=D, n_outputs=n_out)
    pop = hier.make_population(units, n_s, cfg.get('bare', False))
    n_meas = cfg.get('n_meas', 1)
    M = [[[B.var('m%d_%d_%d' % (i, o, t)) for t in range(n_t)]
          for o in range(n_out)] for i in range(n_meas)]
    kind = cfg.get('filter', 'gaussian')
    if cfg.get('composed_filter'):
        # a composed filter over the time points (split 2 + rest)
        M1 = [[row[:2] for row in ind] for ind in M]
        M2 = [[row[2:] for row in ind] for ind in M]
        filt = chi.ComposedPopulationFilter(
            [c12.make(kind, ps.arr(B, M1)), c12.make(kind, ps.arr(B, M2))])
    else:
        filt = c12.make(kind, ps.arr(B, M))
    n_cov = sum(u['cov'] for u in units)
    covs = None
    if n_cov:
        covs = [[B.var('chi%d_%d' % (i, c)) for c in range(n_cov)]
                for i in range(n_s)]
    sigma = None
    if cfg.get('sigma_fixed', False):
        sigma = [B.var('sigfix%d' % o) for o in range(n_out)]
        for s_ in sigma:
            B.assume(s_ > 0)
    n_top = pop.n_parameters() + (0 if sigma is not None else n_out)
    prior = SymPrior(B, n_top)
    def make_post():
        return chi.PopulationFilterLogPosterior(
            filt, times, mm, pop, prior, sigma=sigma,
            error_on_log_scale=cfg.get('log_scale', False), n_samples=n_s,
            covariates=ps.arr(B, covs) if covs else None)
    post = make_post()
    if cfg.get('reuse_filter'):
        # the caller's filter object serves a second posterior: both stand
        # for the same data ('second': the later one is checked, 'first': the
        # earlier one, after the later one was built)
        post2 = make_post()
        if cfg['reuse_filter'] == 'second':
            post = post2
    return dict(mm=mm, pop=pop, post=post, prior=prior, M=M, covs=covs,
                sigma=sigma, units=units, n_ids=n_s, fixed={},
                ll_names=mm.parameters(), kind=kind, n_out=n_out,
                times=times, n_top=n_top)


def case_post(B, cfg):
    try:
        H = build(B, cfg)
    except Exception as e:
        B.fact('no-exception:construction', False, repr(e))
        return
    post = H['post']
    n = post.n_parameters()
    x = [B.var('x%d' % k) for k in range(n)]
    names = post.get_parameter_names()
    ids = post.get_id()
    B.fact('len(names) = len(ids) = n_parameters',
           len(names) == n and len(ids) == n,
           '%d %d %d' % (len(names), len(ids), n))
    if len(names) != n or len(ids) != n:
        return
    full = post.get_parameter_names(include_ids=True)
    B.fact('names with ids pairwise distinct', len(set(full)) == n,
           repr(full))
    val = {(ids[k], names[k]): x[k] for k in range(n)}
    uniq = post.get_id(unique=True)
    n_s, n_out = H['n_ids'], H['n_out']
    times = H['times']
    order = sorted(range(len(times)), key=lambda k: times[k])
    try:
        pop_part, psi = hier.spec(B, H, val, uniq)
    except hier.SpecError as e:
        B.fact('names describe the positions', False, str(e))
        return
    # noise scales
    outs = H['mm'].outputs()
    sig = []
    for o in range(n_out):
        if H['sigma'] is not None:
            sig.append(H['sigma'][o])
        else:
            key = (None, 'Sigma %s' % outs[o])
            if key not in val:
                B.fact('names describe the positions', False, repr(key))
                return
            sig.append(val[key])
        B.assume(sig[o] > 0)
    # simulated measurements at the sorted times
    Y = []
    eps_sq = 0
    for s in range(n_s):
        rows = []
        for o in range(n_out):
            row = []
            for k, j in enumerate(order):
                key = (uniq[s], '%s Epsilon time %d' % (outs[o], k + 1))
                if key not in val:
                    B.fact('names describe the positions', False, repr(key))
                    return
                e = val[key]
                eps_sq = eps_sq + e * e
                ybar = H['mm'].sym_output('out%d' % o, times[j], psi[s])
                if cfg.get('log_scale', False):
                    B.assume(ybar > 0)
                    row.append(ybar * B.exp(sig[o] * e))
                else:
                    row.append(ybar + sig[o] * e)
            rows.append(row)
        Y.append(rows)
    Ms = [[[H['M'][i][o][j] for j in order] for o in range(n_out)]
          for i in range(len(H['M']))]
    c12._assume(B, H['kind'], Ms, Y)
    # (a composed filter of Gaussian filters over disjoint time points is
    # the Gaussian filter over all time points: decided by C12)
    ref_filter = c12.make(H['kind'], ps.arr(B, Ms)).compute_log_likelihood(
        ps.arr(B, Y))
    n_top = H['n_top']
    ref = H['prior'](x[:n_top]) + pop_part - eps_sq / 2 + ref_filter
    xa = ps.arr(B, x)
    try:
        value = post(xa)
    except Exception as e:
        B.fact('no-exception:__call__', False, repr(e))
        return
    if not B.symbolic:
        # concrete replay: the constant is the documented standard-normal one
        pass
    if B.symbolic and not hasattr(value, 't'):
        B.eq('value = reference (finite in the support)', value, ref)
        return
    d = value - ref
    if B.symbolic:
        from chisym import terms as T
        from chisym.sym import Sym
        free = [n_ for n_ in T.variables([Sym.lift(d).t]) if n_ != 'pi']
        B.note('constant', str(d)[:80])
        for k in range(n):
            B.eq('d(value - reference)/d x%d = 0  [%s]' % (k, full[k]),
                 B.diff(d, x[k]), 0)
    else:
        # float replay: value - reference must be the documented constant;
        # recorded under the labels of the symbolic run as well, so that a
        # counter-example of "d(value - reference)/dx_k = 0" is confirmed by
        # the value identity failing at that point
        const = -n_s * n_out * np.log(2 * np.pi) / 2
        B.eq('value - reference = parameter-independent constant', d, const,
             tol=1e-6)
        for k in range(n):
            B.eq('d(value - reference)/d x%d = 0  [%s]' % (k, full[k]),
                 d - const, 0.0, tol=1e-6)
        # (label of the symbolic run when chi returns a plain number, e.g.
        # -inf, where the reference is finite)
        B.eq('value = reference (finite in the support)', d - const, 0.0,
             tol=1e-6)
    # gradient
    try:
        score, sens = post.evaluateS1(xa)
    except Exception as e:
        B.fact('no-exception:evaluateS1', False, repr(e))
        return
    B.eq('S1 score = value', score, value)
    B.eq('value after S1 = value', post(xa), value)
    B.fact('gradient length', np.shape(sens) == (n,), repr(np.shape(sens)))
    if np.shape(sens) != (n,):
        return
    _, g = B.grad(lambda xs: post(ps.arr(B, xs)), x)
    for k in range(n):
        B.eq('grad[%d] = d value/d x%d  [%s]' % (k, k, full[k]), sens[k],
             g[k])


def jobs(tier):
    out = []
    q = tier == 'quick'
    U = hier.unit
    if q:
        comps = c02.compositions(2, [2])
        sub = ['gaussian', 'lognormal_nc', 'pooled', 'hetero']
        comps += [[U(a), U(b), U(c)] for a in sub for b in sub for c in sub
                  ][::2]
    else:
        comps = c02.compositions(3, [2, 3])
    timesets = [[1.0], [2.5, 1.0], [1.0, 2.5]]
    for k, c in enumerate(comps):
        n_out = 1 + (k % 2 if not q else 0)
        out.append(('post', 'case_post', dict(
            units=c, n_samples=2, n_out=n_out,
            # (two observables x two times: the normal form of the filter
            # term does not finish within the per-configuration budget)
            times=timesets[k % 3] if n_out == 1 else timesets[0],
            sigma_fixed=(k % 3 == 0),
            log_scale=(k % 4 == 1), bare=(len(c) == 1 and k % 2 == 0)),
            {'max_paths': 64}))
    for k, c in enumerate(c for c in c02.extra_quick()
                          if not any(u.get('sel') for u in c)):
        out.append(('post', 'case_post', dict(
            units=c, n_samples=2, times=timesets[k % 3],
            sigma_fixed=(k % 2 == 0)), {'max_paths': 64}))
    # one filter object used for two posteriors (unsorted times)
    for k, c in enumerate(([hier.unit('lognormal'), hier.unit('pooled')],
                           [hier.unit('gaussian_nc'), hier.unit('gaussian')])):
        for which in ('second', 'first'):
            out.append(('post', 'case_post', dict(
                units=c, n_samples=2, times=[2.5, 1.0], reuse_filter=which,
                sigma_fixed=bool(k)), {}))
        out.append(('post', 'case_post', dict(
            units=c, n_samples=2, times=[2.5, 4.0, 1.0], n_out=1,
            reuse_filter='second', sigma_fixed=True), {}))
    # composed filter, three unsorted times whose sorting permutation is not
    # its own inverse
    for times in ([2.5, 4.0, 1.0], [4.0, 1.0, 2.5]):
        for c in ([U('gaussian'), U('pooled')], [U('lognormal_nc', 2)]):
            out.append(('post', 'case_post', dict(
                units=c, n_samples=2, times=times, composed_filter=True),
                {'max_paths': 64}))
    # two observables at two (unsorted) time points: the (output, time)
    # layout of the mechanistic sensitivities inside evaluateS1
    for k, c in enumerate(([U('gaussian'), U('pooled')],
                           [U('lognormal_nc'), U('gaussian')],
                           [U('hetero'), U('gaussian_nc')])):
        out.append(('post', 'case_post', dict(
            units=c, n_samples=2, n_out=2, times=[2.5, 1.0],
            sigma_fixed=(k != 1), log_scale=(k == 2)),
            {'max_paths': 64, 'job_timeout_s': 300,
             'max_violations_per_case': 4}))
    cov = [c for c in c02.compositions(2, [2], covs=(0, 1))
           if any(u['cov'] for u in c)]
    cov = cov[::6] if q else cov[::2]
    for k, c in enumerate(cov):
        out.append(('post', 'case_post', dict(
            units=c, n_samples=2, times=timesets[k % 3],
            sigma_fixed=(k % 2 == 0)), {'max_paths': 64}))
    if not q:
        for kind, n_s in (('lognormal', 2), ('gaussian_kde', 2),
                          ('lognormal_kde', 2), ('mixture', 4)):
            for c in ([U('gaussian'), U('pooled')], [U('lognormal_nc', 2)],
                      [U('hetero'), U('gaussian_nc')]):
                out.append(('post', 'case_post', dict(
                    units=c, n_samples=n_s,
                    times=[2.5, 1.0] if kind == 'lognormal' else [1.0],
                    filter=kind,
                    log_scale=kind.startswith('lognormal')),
                    {'max_paths': 64}))
    return out


BOUNDS = dict(
    quick='Gaussian filter, 2 simulated individuals, 1 observable, 1..2 '
          '(unsorted) times, 1 measured individual; all compositions of <= 2 '
          'sub-models of total dimension 2 (plus 3 compositions with 2 '
          'observables x 2 times), half of the 64 three-unit '
          'compositions, a sixth of the covariate variants; sigma fixed/free '
          'and additive/log-scale noise rotated over the compositions',
    thorough='all 497 compositions of <= 3 sub-models with dimension 2-3, 1-2 '
             'observables (2 observables at one time point), all five '
             'filters on three compositions (KDE and mixture filters at one '
             'time point; 4 simulated individuals for the mixture)',
    outside='more simulated individuals; the ODE solver (uninterpreted); '
            'filters are vouched for by C12')
TRUSTED = ['z3', 'canonical stage', 'population filters as reference (C12)',
           'naming conventions as documented']
