"""C16 - seeds fully determine random results; random streams are
independent."""
import itertools

import numpy as np
import pints

import chi

from chisym import terms as T
from chisym import facades
from chisym.sym import Sym

from . import c06, c13, c15, hier, refs
from . import popspec as ps
from .stubs import SymMechModel, SymPrior

EXPLANATION = (
    'The RNG stub names every draw by (stream, counter): default_rng(int s) '
    'is the stream S(s), default_rng(None) a fresh anonymous stream, a '
    'Generator is advanced, and the process-wide generator is a stream whose '
    'state is an arbitrary label until np.random.seed(s) replaces it.  Every '
    'sampling entry point is run twice with the same integer seed under two '
    'different global states and with an interleaved foreign draw: the two '
    'results must be the same terms (a use of the global generator shows up '
    'as different variables).  Different seeds must give different '
    'variables; distinct noise carriers (cells) must depend on disjoint sets '
    'of stream variables; a Generator passed as seed must be advanced.')

FACTS = {'max_paths': 600, 'diffcheck': False, 'replay_candidates': 1,
         'facts_final': True, 'confirm_by_terms': True}


class GlobalPrior(pints.LogPrior):
    """a prior that draws from the process-wide NumPy generator, like the
    pints priors do"""

    def __init__(self, n, positive=()):
        self._n = n
        self._pos = positive

    def n_parameters(self):
        return self._n

    def __call__(self, x):
        return 0.0

    def sample(self, n=1):
        import chi._log_pdfs as lp
        z = lp.np.random.normal(size=(n, self._n))
        out = np.empty((n, self._n), dtype=object)
        for i in range(n):
            for j in range(self._n):
                out[i, j] = Sym.lift(z[i][j]).exp() if j in self._pos \
                    else z[i][j]
        return out


def TS(cfg):
    """measurement times of the predictive entries (a time may be listed
    twice: replicate measurements have their own noise)"""
    return list(cfg.get('times', [1.0, 2.5]))


def flat(res):
    import pandas as pd
    if isinstance(res, pd.DataFrame):
        return [v for v in res['Value']]
    return [x for x in np.asarray(res, dtype=object).ravel()]


def entry(B, cfg):
    """returns f(seed) -> result, and the cells' own-noise selector"""
    kind = cfg['entry']
    if kind == 'em':
        m = refs.error_model(cfg['model'])
        par = B.vars('sigma', refs.em_nparams(cfg['model']))
        yb = B.vars('ybar', 2)
        refs.em_assume_support(B, cfg['model'], par, yb)
        return lambda seed: m.sample(par, yb, n_samples=2, seed=seed)
    if kind == 'pop':
        units = cfg['units']
        n_ids = 2
        m = hier.make_population(units, n_ids, cfg.get('bare', False))
        theta, per_dim = c06._units_theta(B, units, n_ids)
        n_cov = sum(u['cov'] for u in units)
        covs = [B.var('chi%d' % c) for c in range(n_cov)] if n_cov else None
        c0 = 0
        for q, u in enumerate(units):
            thm, beta = per_dim[q]
            if not ps.is_delta(u['kind']):
                for j in range(u['n_dim']):
                    sg = thm[1][j]
                    for c in range(u['cov']):
                        sg = sg + beta[u['n_dim'] + j][c] * covs[c0 + c]
                    B.assume(sg > 0)
            c0 += u['cov']
        free = list(theta)
        if cfg.get('fix') is not None:
            m = chi.ReducedPopulationModel(m)
            nm = m.get_parameter_names()
            m.fix_parameters({nm[cfg['fix']]: theta[cfg['fix']]})
            free = theta[:cfg['fix']] + theta[cfg['fix'] + 1:]
        kw = {'covariates': ps.arr(B, [covs])} if covs else {}
        if covs and cfg.get('cov_rows'):
            # one covariate row per sampled individual (row 2 = row 1 + 1:
            # the shifted scales stay positive for non-negative coefficients
            # of the scale, which the support assumptions below require)
            rows = [list(covs), [c + 1 for c in covs]]
            c0 = 0
            for q, u in enumerate(units):
                thm, beta = per_dim[q]
                if not ps.is_delta(u['kind']):
                    for j in range(u['n_dim']):
                        sg = thm[1][j]
                        for c in range(u['cov']):
                            sg = sg + beta[u['n_dim'] + j][c] * rows[1][c0 + c]
                        B.assume(sg > 0)
                c0 += u['cov']
            kw = {'covariates': ps.arr(B, rows)}
        return lambda seed: m.sample(ps.arr(B, free), n_samples=2, seed=seed,
                                     **kw)
    if kind == 'predictive':
        mm = SymMechModel(B, 2, 2)
        pm = chi.PredictiveModel(
            mm, [chi.GaussianErrorModel(), chi.GaussianErrorModel()])
        th = B.vars('psi', 2) + [B.var('s0'), B.var('s1')]
        B.assume(th[2] > 0)
        B.assume(th[3] > 0)
        return lambda seed: pm.sample(ps.arr(B, th), TS(cfg), n_samples=2,
                                      seed=seed, return_df=cfg.get('df', True))
    if kind == 'population_predictive':
        units = cfg['units']
        D = hier.total_dim(units)
        mm = SymMechModel(B, D - 1, 1)
        pm = chi.PredictiveModel(mm, chi.GaussianErrorModel())
        pop = hier.make_population(units, 2)
        ppm = chi.PopulationPredictiveModel(pm, pop)
        theta, per_dim = c06._units_theta(B, units, 2)
        for q, u in enumerate(units):
            if not ps.is_delta(u['kind']):
                for j in range(u['n_dim']):
                    B.assume(per_dim[q][0][1][j] > 0)
        return lambda seed: ppm.sample(ps.arr(B, theta), TS(cfg),
                                       n_samples=2, seed=seed)
    if kind == 'posterior_predictive':
        mm = SymMechModel(B, 2, 1)
        pm = chi.PredictiveModel(mm, chi.GaussianErrorModel())
        ds, cells = c15._posterior_dataset(
            B, pm.get_parameter_names(), ['ID a', 'ID b'], 1, 2)
        for key, v in cells.items():
            if key[0] == pm.get_parameter_names()[-1]:
                B.assume(v > 0)
        ppm = chi.PosteriorPredictiveModel(pm, ds)
        return lambda seed: ppm.sample(TS(cfg), n_samples=2, seed=seed)
    if kind == 'prior_predictive':
        mm = SymMechModel(B, 2, 1)
        pm = chi.PredictiveModel(mm, chi.GaussianErrorModel())
        ppm = chi.PriorPredictiveModel(pm, GlobalPrior(3, positive=(2,)))
        return lambda seed: ppm.sample(TS(cfg), n_samples=2, seed=seed)
    if kind == 'pam':
        models = []
        for k in range(2):
            mm = SymMechModel(B, 2, 1, tag='Y%d' % k)
            pm = chi.PredictiveModel(mm, chi.GaussianErrorModel())
            ds, cells = c15._posterior_dataset(
                B, pm.get_parameter_names(), ['ID a'], 1, 2)
            for key, v in cells.items():
                if key[0] == pm.get_parameter_names()[-1]:
                    B.assume(v > 0)
            models.append(chi.PosteriorPredictiveModel(pm, ds))
        pam = chi.PAMPredictiveModel(models, [1.0, 1.0])
        ns = cfg.get('pam_samples', 1)
        return lambda seed: pam.sample([1.0], n_samples=ns, seed=seed)
    if kind == 'init_logposterior':
        mm = SymMechModel(B, 2, 1)
        ll = chi.LogLikelihood(mm, chi.GaussianErrorModel(),
                               [B.var('y0')], [1.0])
        post = chi.LogPosterior(ll, GlobalPrior(3))
        return lambda seed: post.sample_initial_parameters(2, seed=seed)
    if kind == 'init_hierarchical':
        H = hier.build(B, dict(units=cfg['units'], n_ids=2))
        n_top = H['hl'].n_parameters(exclude_bottom_level=True)
        names = H['pop'].get_parameter_names()
        pos = tuple(i for i, n in enumerate(names)
                    if n.startswith(('Std.', 'Log std.', 'Sigma')))
        post = chi.HierarchicalLogPosterior(H['hl'], GlobalPrior(n_top, pos))
        return lambda seed: post.sample_initial_parameters(2, seed=seed)
    if kind == 'init_filter':
        H = c13.build(B, dict(units=cfg['units'], n_samples=2, times=[1.0]))
        post = H['post']
        names = post.get_parameter_names(exclude_bottom_level=True)
        pos = tuple(i for i, n in enumerate(names)
                    if n.startswith(('Std.', 'Log std.', 'Sigma')))
        post._log_prior = GlobalPrior(H['n_top'], pos)
        return lambda seed: post.sample_initial_parameters(2, seed=seed)
    raise ValueError(kind)


def _seed(v):
    """seeds of other integer types are seeds too (NumPy integer scalars,
    e.g. an element of np.arange or the result of rng.integers)"""
    if isinstance(v, str) and v.startswith('np.'):
        t, n = v[3:].split(':')
        return getattr(np, t)(int(n))
    return v


def case_repro(B, cfg):
    if not B.symbolic:
        return
    f0 = entry(B, cfg)
    f = lambda s: f0(_seed(s))
    results = []
    for gstate, interleave in (('A', False), ('B', True)):
        rng = B.new_rng()
        rng.set_global('state-' + gstate)
        if interleave:
            rng.normal(size=2)      # a foreign draw from the global stream
        try:
            r = flat(f(cfg.get('seed_value', 11)))
        except Exception as e:
            B.fact('no-exception (seed %r, global state %s)' % (
                cfg.get('seed_value', 11), gstate), False, repr(e))
            return
        if interleave:
            rng.normal(size=1)
        results.append((r, rng))
    (r1, g1), (r2, g2) = results
    B.fact('same number of values', len(r1) == len(r2))
    for k, (a, b) in enumerate(zip(r1, r2)):
        B.eq('same seed, different global state: value[%d] identical' % k,
             a, b)
    # different seeds -> different draws, and the result is random at all
    rng = B.new_rng()
    rng.set_global('state-A')
    r3 = flat(f(12))
    v1 = set(n for x in r1 for n in c06.eps_of(Sym.lift(x)))
    v3 = set(n for x in r3 for n in c06.eps_of(Sym.lift(x)))
    if cfg.get('random', True):
        B.fact('result depends on the random stream', len(v1) > 0)
        B.fact('different seeds give different draws',
               v1 != v3 and any(Sym.lift(a).t is not Sym.lift(b).t
                                for a, b in zip(r1, r3)),
               repr(sorted(v1 & v3)[:4]))
    if cfg.get('light'):
        return
    # a Generator passed as seed is advanced, not restarted
    rng = B.new_rng()
    rng.set_global('state-A')
    g = rng.default_rng(21)
    try:
        ra = flat(f(g))
        rb = flat(f(g))
    except Exception as e:
        if cfg.get('generator_ok', True):
            B.fact('no-exception with a Generator as seed', False, repr(e))
        return
    va = set(n for x in ra for n in c06.eps_of(Sym.lift(x)))
    vb = set(n for x in rb for n in c06.eps_of(Sym.lift(x)))
    if cfg.get('random', True) and cfg.get('generator_ok', True):
        B.fact('a Generator passed as seed is advanced', not (va & vb),
               repr(sorted(va & vb)[:4]))


def case_independent(B, cfg):
    """distinct noise carriers depend on disjoint stream variables"""
    if not B.symbolic:
        return
    f = entry(B, cfg)
    rng = B.new_rng()
    rng.set_global('state-A')
    seed = cfg.get('seed', 11)
    if seed == 'generator':
        seed = rng.default_rng(11)
    r = flat(f(seed))
    own = []
    for x in r:
        names = c06.eps_of(Sym.lift(x))
        if cfg.get('own_noise_only'):
            names = sorted(names, key=rng.order.index)[-1:]
        own.append(set(names))
    for i in range(len(r)):
        for j in range(i + 1, len(r)):
            shared = own[i] & own[j]
            if cfg.get('delta_ok') and not own[i] and not own[j]:
                continue
            B.fact('noise of cells %d and %d is independent (disjoint stream '
                   'variables)' % (i, j), not shared, repr(sorted(shared)))


def jobs(tier):
    out = []
    q = tier == 'quick'
    U = hier.unit
    entries = [dict(entry='em', model=m) for m in refs.ERROR_MODELS]
    pops = [[U(k, 2)] for k in ps.KINDS] + [
        [U('gaussian'), U('lognormal')], [U('truncgauss'), U('gaussian_nc')],
        [U('pooled'), U('hetero')], [U('gaussian', 1, 1)],
        [U('lognormal', 1, 1), U('truncgauss')]]
    for u in pops:
        rnd = any(not ps.is_delta(x['kind']) for x in u)
        entries.append(dict(entry='pop', units=u, random=rnd,
                            bare=(len(u) == 1)))
    entries.append(dict(entry='pop', units=[U('gaussian'), U('pooled')],
                        fix=0))
    for u in ([U('gaussian', 1, 1)], [U('lognormal', 1, 1), U('truncgauss')],
              [U('gaussian_nc', 1, 2), U('gaussian')]):
        entries.append(dict(entry='pop', units=u, bare=(len(u) == 1),
                            cov_rows=True))
    entries += [dict(entry='predictive'), dict(entry='predictive', df=False),
                dict(entry='population_predictive',
                     units=[U('gaussian'), U('lognormal')]),
                dict(entry='population_predictive',
                     units=[U('truncgauss'), U('gaussian_nc')]),
                dict(entry='posterior_predictive'),
                dict(entry='prior_predictive', generator_ok=False),
                dict(entry='pam', light=True),
                dict(entry='init_logposterior', generator_ok=False),
                dict(entry='init_hierarchical', generator_ok=False,
                     units=[U('gaussian'), U('lognormal_nc')]),
                dict(entry='init_hierarchical', generator_ok=False,
                     units=[U('truncgauss'), U('pooled')]),
                dict(entry='init_filter', generator_ok=False,
                     units=[U('gaussian'), U('pooled')]),
                dict(entry='init_filter', generator_ok=False,
                     units=[U('lognormal_nc', 2)])]
    for e in entries:
        out.append(('repro', 'case_repro', dict(e), FACTS))
        # the integer seed 0 is a seed like any other
        out.append(('repro', 'case_repro', dict(e, seed_value=0, light=True),
                    FACTS))
        # NumPy integer scalars as seeds
        out.append(('repro', 'case_repro', dict(
            e, seed_value='np.int64:11', light=True), FACTS))
        if e['entry'] in ('prior_predictive', 'predictive', 'pam',
                          'posterior_predictive'):
            out.append(('repro', 'case_repro', dict(
                e, seed_value='np.uint32:7', light=True), FACTS))
    for e in entries:
        if e['entry'] in ('em', 'pop'):
            for seed in (11, 0):
                out.append(('independent', 'case_independent',
                            dict(e, delta_ok=True, seed=seed), FACTS))
        elif e['entry'] in ('predictive', 'population_predictive',
                            'posterior_predictive', 'prior_predictive'):
            for seed in (11, 0, 'generator'):
                if seed == 'generator' and not e.get('generator_ok', True):
                    continue
                out.append(('independent', 'case_independent',
                            dict(e, own_noise_only=True, seed=seed), FACTS))
        if e['entry'] in ('predictive', 'population_predictive',
                          'posterior_predictive', 'prior_predictive'):
            # a time listed twice / three times
            for times_ in ([1.0, 2.5, 2.5], [2.5, 1.0, 2.5, 2.5]):
                out.append(('independent', 'case_independent',
                            dict(e, own_noise_only=True, seed=11,
                                 times=times_), FACTS))
        if e['entry'] == 'pam':
            # samples drawn from different candidate models (and the model
            # choice itself) use their own part of the stream
            for seed in (11, 0):
                out.append(('independent', 'case_independent',
                            dict(e, own_noise_only=True, pam_samples=2,
                                 seed=seed), FACTS))
        elif e['entry'].startswith('init_'):
            # the initial points of one call: every entry of every row has
            # its own noise (rows are not copies of one restarted stream)
            for seed in (11, 0):
                out.append(('independent', 'case_independent',
                            dict(e, own_noise_only=True, delta_ok=True,
                                 seed=seed), FACTS))
    return out


BOUNDS = dict(
    quick='every sampling entry point: 4 error models, 12 population models '
          '(all kinds with n_dim 2, composed, covariate, reduced), '
          'PredictiveModel (table and array), PopulationPredictiveModel, '
          'Posterior / Prior / PAM predictive models, the three '
          'sample_initial_parameters; 2 samples, 2 times, 2 outputs',
    thorough='same entry points (the space is the set of entry points, not '
             'of sizes)',
    outside='the bit generator itself; real pints priors (modelled as '
            'drawing from the process-wide generator, which is what they do)')
TRUSTED = ['RNG stub (named streams) = NumPy seeding semantics as documented',
           'syntactic disjointness of stream variables implies independence']
