"""C08 - fixing parameters is exact substitution, reversible and
order-independent."""
import itertools

import numpy as np

import chi

from . import hier, refs
from . import popspec as ps
from .stubs import SymMechModel

EXPLANATION = (
    'One inductive step from every reachable state: for each reducible '
    'object (ReducedErrorModel x4, ReducedPopulationModel over plain, '
    'composed and covariate models, ReducedMechanisticModel, '
    'LogLikelihood.fix_parameters) every pre-state (set of fixed names with '
    'symbolic values, reached by one call, optionally followed by an '
    'evaluation that rewrites the shared buffer) is combined with every call '
    'dictionary in {absent, None, symbolic}^n.  z3 decides that value, '
    'pointwise values, samples and restricted sensitivities at the free '
    'parameters equal the unfixed object at the substituted full vector, '
    'names/counts list exactly the free parameters in original order, and '
    'that the result coincides with a fresh object given the single net '
    'dictionary.')


# ------------------------------------------------------------------ adapters
class Adapter(object):
    def full_names(self):
        raise NotImplementedError


class EMAdapter(Adapter):
    def __init__(self, B, name, n_obs=2, P=1):
        self.B, self.name, self.n_obs, self.P = B, name, n_obs, P
        self.yb = B.vars('ybar', n_obs)
        self.y = B.vars('yobs', n_obs)
        self.S = [[B.var('S%d_%d' % (j, p)) for p in range(P)]
                  for j in range(n_obs)]

    def n(self):
        return refs.em_nparams(self.name)

    def raw(self):
        return refs.error_model(self.name)

    def reduced(self):
        return chi.ReducedErrorModel(refs.error_model(self.name))

    def names(self, obj):
        return obj.get_parameter_names()

    def count(self, obj):
        return obj.n_parameters()

    def assume(self, full):
        refs.em_assume_support(self.B, self.name, full, self.yb, self.y)

    def evaluate(self, obj, x, free_idx):
        B = self.B
        out = {}
        xa = ps.arr(B, x)
        out['value'] = obj.compute_log_likelihood(xa, self.yb, self.y)
        pw = obj.compute_pointwise_ll(xa, self.yb, self.y)
        for j in range(self.n_obs):
            out['pointwise[%d]' % j] = pw[j]
        score, sens = obj.compute_sensitivities(
            xa, self.yb, ps.arr(B, self.S), self.y)
        out['S1 score'] = score
        out['len(sens)'] = len(sens)
        for k in range(len(sens)):
            out['sens[%d]' % k] = sens[k]
        if B.symbolic:
            B.new_rng()
            s = obj.sample(xa, self.yb, n_samples=1, seed=4)
            for j in range(self.n_obs):
                out['sample[%d]' % j] = s[j][0]
        return out

    def restrict(self, full_out, free_idx):
        """what the reduced object must return, from the unfixed object's
        results"""
        out = dict(full_out)
        n = self.n()
        keep = list(range(self.P)) + [self.P + i for i in free_idx]
        sens = [full_out['sens[%d]' % k] for k in keep]
        for k in list(out):
            if k.startswith('sens['):
                del out[k]
        out['len(sens)'] = len(sens)
        for k, v in enumerate(sens):
            out['sens[%d]' % k] = v
        return out


class PopAdapter(Adapter):
    def __init__(self, B, units, n_ids=2, bare=False):
        self.B, self.units, self.n_ids, self.bare = B, units, n_ids, bare
        D = hier.total_dim(units)
        self.D = D
        self.kinds = [u['kind'] for u in units for _ in range(u['n_dim'])]
        n_cov = sum(u['cov'] for u in units)
        self.covs = [[B.var('chi%d_%d' % (i, c)) for c in range(n_cov)]
                     for i in range(n_ids)] if n_cov else None
        self.G = [[B.var('G%d_%d' % (i, d)) for d in range(D)]
                  for i in range(n_ids)]
        self._n = self.raw().n_parameters()
        self.obs = None

    def n(self):
        return self._n

    dim_names = None

    def raw(self):
        m = hier.make_population(self.units, self.n_ids, self.bare)
        m.set_n_ids(self.n_ids)
        if self.dim_names:
            m.set_dim_names(list(self.dim_names))
        return m

    def reduced(self):
        if self.dim_names:
            # the dimensions are (re)named after the wrapper was built, as a
            # hierarchical likelihood or the controller does
            m = hier.make_population(self.units, self.n_ids, self.bare)
            m.set_n_ids(self.n_ids)
            r = chi.ReducedPopulationModel(m)
            r.set_dim_names(list(self.dim_names))
            return r
        return chi.ReducedPopulationModel(self.raw())

    def names(self, obj):
        return obj.get_parameter_names()

    def count(self, obj):
        return obj.n_parameters()

    def assume(self, full):
        B = self.B
        raw = self.raw()
        # individuals: delta dims carry the population values
        names = raw.get_parameter_names()
        obs = [[B.var('x%d_%d' % (i, d)) for d in range(self.D)]
               for i in range(self.n_ids)]
        k = 0
        d0 = 0
        c0 = 0
        for u in self.units:
            kind, nd = u['kind'], u['n_dim']
            P = ps.p_per_dim(kind, self.n_ids)
            th = full[k:k + P * nd]
            beta = full[k + P * nd:k + P * nd + P * nd * u['cov']]
            thm = ps.theta_matrix(th, kind, nd, self.n_ids)
            for d in range(nd):
                for i in range(self.n_ids):
                    if kind == 'pooled':
                        v = thm[0][d]
                        for c in range(u['cov']):
                            v = v + beta[d * u['cov'] + c] * \
                                self.covs[i][c0 + c]
                        obs[i][d0 + d] = v
                    elif kind == 'hetero':
                        obs[i][d0 + d] = thm[i][d]
                    else:
                        s = thm[1][d]
                        for c in range(u['cov']):
                            s = s + beta[(nd + d) * u['cov'] + c] * \
                                self.covs[i][c0 + c]
                        B.assume(s > 0)
                        if kind == 'lognormal':
                            B.assume(obs[i][d0 + d] > 0)
                        if kind == 'truncgauss':
                            B.assume(obs[i][d0 + d] >= 0)
            k += P * nd * (1 + u['cov'])
            d0 += nd
            c0 += u['cov']
        self.obs = obs

    def evaluate(self, obj, x, free_idx):
        B = self.B
        out = {}
        xa = ps.arr(B, x)
        kw = {}
        if self.covs is not None:
            kw['covariates'] = ps.arr(B, self.covs)
        obs = ps.arr(B, self.obs)
        out['value'] = obj.compute_log_likelihood(xa, obs, **kw)
        score, dpsi, dth = obj.compute_sensitivities(
            xa, obs, dlogp_dpsi=ps.arr(B, self.G), **kw)
        out['S1 score'] = score
        for i in range(self.n_ids):
            for d in range(self.D):
                out['dpsi[%d,%d]' % (i, d)] = dpsi[i][d]
        out['len(dtheta)'] = len(dth)
        for k in range(len(dth)):
            out['dtheta[%d]' % k] = dth[k]
        score, red = obj.compute_sensitivities(
            xa, obs, dlogp_dpsi=ps.arr(B, self.G), reduce=True, **kw)
        out['len(reduced)'] = len(red)
        for k in range(len(red)):
            out['reduced[%d]' % k] = red[k]
        nb, nt = obj.n_hierarchical_parameters(self.n_ids)
        out['n_hierarchical_parameters'] = nb + nt
        psi = obj.compute_individual_parameters(xa, obs, **kw)
        for i in range(self.n_ids):
            for d in range(self.D):
                out['psi[%d,%d]' % (i, d)] = psi[i][d]
        # (what the hierarchical likelihood asks for first: the bottom-level
        # values with the pooled / heterogeneous dimensions filled in)
        eta = obj.compute_individual_parameters(xa, obs, return_eta=True,
                                                **kw)
        out['eta shape'] = tuple(np.shape(eta))
        for i in range(np.shape(eta)[0]):
            for d in range(np.shape(eta)[1]):
                out['eta[%d,%d]' % (i, d)] = eta[i][d]
        if B.symbolic and 'hetero' not in self.kinds:
            B.new_rng()
            kw2 = {}
            if self.covs is not None:
                kw2['covariates'] = ps.arr(B, self.covs[:1])
            s = obj.sample(xa, n_samples=1, seed=4, **kw2)
            for d in range(self.D):
                out['sample[%d]' % d] = s[0][d]
        return out

    def restrict(self, full_out, free_idx):
        out = dict(full_out)
        n = self.n()
        dth = [full_out['dtheta[%d]' % k] for k in free_idx]
        nred = full_out['len(reduced)']
        nb = nred - n
        red = [full_out['reduced[%d]' % k] for k in range(nb)] + \
            [full_out['reduced[%d]' % (nb + k)] for k in free_idx]
        for k in list(out):
            if k.startswith(('dtheta[', 'reduced[')):
                del out[k]
        out['len(dtheta)'] = len(dth)
        for k, v in enumerate(dth):
            out['dtheta[%d]' % k] = v
        out['len(reduced)'] = len(red)
        out['n_hierarchical_parameters'] = len(red)
        for k, v in enumerate(red):
            out['reduced[%d]' % k] = v
        return out


class MechAdapter(Adapter):
    def __init__(self, B, n=3):
        self.B, self._n = B, n
        self.times = [0.0, 1.0, 2.5]

    def n(self):
        return self._n

    def raw(self):
        return SymMechModel(self.B, n_params=self._n, n_outputs=2)

    def reduced(self):
        return chi.ReducedMechanisticModel(self.raw())

    def names(self, obj):
        return obj.parameters()

    def count(self, obj):
        return obj.n_parameters()

    def assume(self, full):
        pass

    def evaluate(self, obj, x, free_idx):
        B = self.B
        out = {}
        xa = ps.arr(B, x)
        if obj.has_sensitivities():
            # sensitivities were switched on earlier in the history: what
            # the object returns *now*, without re-enabling them
            y, s = obj.simulate(xa, self.times)
            out['carried sens shape'] = tuple(np.shape(s))
            for k in range(np.shape(s)[0]):
                for o in range(np.shape(s)[1]):
                    for j in range(np.shape(s)[2]):
                        out['carried sens[%d,%d,%d]' % (k, o, j)] = s[k][o][j]
        obj.enable_sensitivities(False)
        y = obj.simulate(xa, self.times)
        for o in range(2):
            for k in range(len(self.times)):
                out['y[%d,%d]' % (o, k)] = y[o][k]
        obj.enable_sensitivities(True)
        y, s = obj.simulate(xa, self.times)
        out['sens shape'] = tuple(np.shape(s))
        for k in range(np.shape(s)[0]):
            for o in range(np.shape(s)[1]):
                for j in range(np.shape(s)[2]):
                    out['sens[%d,%d,%d]' % (k, o, j)] = s[k][o][j]
                out['yS[%d,%d]' % (o, k)] = y[o][k]
        return out

    def restrict(self, full_out, free_idx):
        out = {k: v for k, v in full_out.items()
               if not k.startswith('sens')}
        nt = len(self.times)
        out['sens shape'] = (nt, 2, len(free_idx))
        for k in range(nt):
            for o in range(2):
                for q, j in enumerate(free_idx):
                    out['sens[%d,%d,%d]' % (k, o, q)] = \
                        full_out['sens[%d,%d,%d]' % (k, o, j)]
        return out


class LLAdapter(Adapter):
    """chi.LogLikelihood.fix_parameters (wraps / unwraps the sub-models)."""

    def __init__(self, B, ems):
        self.B, self.ems = B, ems
        self.times = [[1.0, 2.5], [0.0, 1.0]][:len(ems)]
        self.n_mech = 2
        self.obs = [[B.var('y%d_%d' % (o, j))
                     for j in range(len(self.times[o]))]
                    for o in range(len(ems))]
        self._n = self.n_mech + sum(refs.em_nparams(e) for e in ems)
        self.end_with_s1 = False

    def n(self):
        return self._n

    def raw(self):
        mm = SymMechModel(self.B, n_params=self.n_mech,
                          n_outputs=len(self.ems))
        self.mm = mm
        return chi.LogLikelihood(
            mm, [refs.error_model(e) for e in self.ems], self.obs,
            self.times)

    def reduced(self):
        return _LLFix(self.raw())

    def names(self, obj):
        return obj.get_parameter_names()

    def count(self, obj):
        return obj.n_parameters()

    def assume(self, full):
        B = self.B
        psi = full[:self.n_mech]
        k = self.n_mech
        mm = SymMechModel(B, n_params=self.n_mech, n_outputs=len(self.ems))
        for o, e in enumerate(self.ems):
            npar = refs.em_nparams(e)
            yb = [mm.sym_output('out%d' % o, t, psi) for t in self.times[o]]
            refs.em_assume_support(B, e, full[k:k + npar], yb, self.obs[o])
            k += npar

    def evaluate(self, obj, x, free_idx):
        B = self.B
        xa = ps.arr(B, x)
        out = {}
        # gradient first: the mechanistic model is in whatever sensitivity
        # state the history left it in
        score, sens = obj.evaluateS1(xa)
        out['S1-first score'] = score
        out['len(S1-first sens)'] = len(sens)
        for k in range(len(sens)):
            out['S1-first sens[%d]' % k] = sens[k]
        out['value'] = obj(xa)
        pw = obj.compute_pointwise_ll(xa)
        for j in range(len(pw)):
            out['pointwise[%d]' % j] = pw[j]
        score, sens = obj.evaluateS1(xa)
        out['S1 score'] = score
        out['len(sens)'] = len(sens)
        for k in range(len(sens)):
            out['sens[%d]' % k] = sens[k]
        out['value after S1'] = obj(xa)
        if self.end_with_s1:
            obj.evaluateS1(xa)
        return out

    def restrict(self, full_out, free_idx):
        out = {k: v for k, v in full_out.items()
               if not k.startswith(('sens[', 'S1-first sens['))}
        out['len(sens)'] = out['len(S1-first sens)'] = len(free_idx)
        for q, j in enumerate(free_idx):
            out['sens[%d]' % q] = full_out['sens[%d]' % j]
            out['S1-first sens[%d]' % q] = full_out['S1-first sens[%d]' % j]
        return out


class PMAdapter(Adapter):
    """chi.PredictiveModel.fix_parameters: reducible in place, forwards the
    dictionary to the mechanistic and to every error sub-model."""

    def __init__(self, B, ems):
        self.B, self.ems = B, ems
        self.n_mech = 2
        self.times = [1.0, 2.5]
        self._n = self.n_mech + sum(refs.em_nparams(e) for e in ems)

    def n(self):
        return self._n

    def raw(self):
        mm = SymMechModel(self.B, n_params=self.n_mech,
                          n_outputs=len(self.ems))
        return chi.PredictiveModel(
            mm, [refs.error_model(e) for e in self.ems])

    def reduced(self):
        return self.raw()

    def names(self, obj):
        return obj.get_parameter_names()

    def count(self, obj):
        return obj.n_parameters()

    def assume(self, full):
        B = self.B
        psi = full[:self.n_mech]
        k = self.n_mech
        mm = SymMechModel(B, n_params=self.n_mech, n_outputs=len(self.ems))
        for o, e in enumerate(self.ems):
            npar = refs.em_nparams(e)
            yb = [mm.sym_output('out%d' % o, t, psi) for t in self.times]
            refs.em_assume_support(B, e, full[k:k + npar], yb)
            k += npar

    def evaluate(self, obj, x, free_idx):
        B = self.B
        out = {}
        # (the float replay samples with the real generator: same seed,
        # same numbers for the reduced and the unfixed object)
        B.new_rng()
        s = obj.sample(ps.arr(B, x), self.times, n_samples=1, seed=4,
                       return_df=False)
        out['sample shape'] = tuple(np.shape(s))
        for o in range(np.shape(s)[0]):
            for k in range(np.shape(s)[1]):
                out['sample[%d,%d]' % (o, k)] = s[o][k][0]
        return out

    def restrict(self, full_out, free_idx):
        return dict(full_out)


class PPMAdapter(Adapter):
    """chi.PopulationPredictiveModel.fix_parameters (population parameters;
    wraps / unwraps the population model)."""

    def __init__(self, B, units):
        self.B, self.units = B, units
        self.times = [1.0, 2.5]
        self._n = self.raw().n_parameters()

    def n(self):
        return self._n

    def raw(self):
        D = hier.total_dim(self.units)
        mm = SymMechModel(self.B, n_params=D - 1, n_outputs=1)
        pm = chi.PredictiveModel(mm, chi.GaussianErrorModel())
        return chi.PopulationPredictiveModel(
            pm, hier.make_population(self.units, 2))

    def reduced(self):
        return self.raw()

    def names(self, obj):
        return obj.get_parameter_names()

    def count(self, obj):
        return obj.n_parameters()

    def assume(self, full):
        for v in full:
            self.B.assume(v > 0)

    def evaluate(self, obj, x, free_idx):
        B = self.B
        out = {}
        B.new_rng()
        s = obj.sample(ps.arr(B, x), self.times, n_samples=2, seed=4,
                       return_df=False)
        out['sample shape'] = tuple(np.shape(s))
        for k in range(np.shape(s)[1]):
            for i in range(np.shape(s)[2]):
                out['sample[0,%d,%d]' % (k, i)] = s[0][k][i]
        return out

    def restrict(self, full_out, free_idx):
        return dict(full_out)


class _LLFix(object):
    """LogLikelihood is reducible in place: same interface as the wrappers."""

    def __init__(self, ll):
        self.ll = ll

    def fix_parameters(self, d):
        self.ll.fix_parameters(d)

    def __getattr__(self, name):
        return getattr(self.ll, name)

    def __call__(self, x):
        return self.ll(x)


def make_adapter(B, spec):
    kind = spec[0]
    if kind == 'em':
        return EMAdapter(B, spec[1])
    if kind == 'pop':
        return PopAdapter(B, spec[1], bare=spec[2] if len(spec) > 2 else False)
    if kind == 'mech':
        return MechAdapter(B, spec[1])
    if kind == 'll':
        return LLAdapter(B, spec[1])
    if kind == 'pm':
        return PMAdapter(B, spec[1])
    if kind == 'ppm':
        return PPMAdapter(B, spec[1])
    raise ValueError(kind)


# ------------------------------------------------------------------ the case
def _apply(state, call):
    """net effect of a call dictionary on {index: value}"""
    out = dict(state)
    for k, v in call.items():
        if v is None:
            out.pop(k, None)
        else:
            out[k] = v
    return out


def case_step(B, cfg):
    A = make_adapter(B, cfg['object'])
    if cfg.get('rename_dims') and cfg['object'][0] == 'pop':
        A.dim_names = ['V%d' % d for d in range(A.D)]
    n = A.n()
    full_names = A.names(A.raw())
    B.fact('distinct parameter names', len(set(full_names)) == n,
           repr(full_names))
    pre = cfg['pre']            # tuple of indices fixed in the pre-state
    call = cfg['call']          # tuple over indices: 'a'bsent, 'n'one, 'v'alue
    x = [B.var('x%d' % k) for k in range(n)]         # free values
    v1 = [B.var('v%d' % k) for k in range(n)]        # values of first call
    v2 = [B.var('w%d' % k) for k in range(n)]        # values of second call
    obj = A.reduced()
    if cfg.get('sens_pre') and cfg['object'][0] == 'mech':
        obj.enable_sensitivities(True)
    if cfg.get('sens_pre') and cfg['object'][0] == 'll':
        A.end_with_s1 = True
    d1 = {full_names[k]: v1[k] for k in pre}
    state = {k: v1[k] for k in pre}
    if d1:
        obj.fix_parameters(d1)
    if cfg.get('evaluate_between', False):
        free = [k for k in range(n) if k not in state]
        fullv = [state.get(k, x[k]) for k in range(n)]
        A.assume(fullv)
        A.evaluate(obj, [x[k] for k in free], free)
    original = None
    if cfg.get('via_copy') and hasattr(obj, 'copy'):
        # the call goes to a copy: the original keeps its pre-state (names,
        # values, results), whatever is done to -- or evaluated on -- the copy
        original, pre_state = obj, dict(state)
        pre_free = [k for k in range(n) if k not in pre_state]
        pre_full = [pre_state.get(k, x[k]) for k in range(n)]
        A.assume(pre_full)
        pre_got = A.evaluate(original, [x[k] for k in pre_free], pre_free)
        obj = original.copy()
    d2 = {}
    c2 = {}
    for k, c in enumerate(call):
        if c == 'n':
            d2[full_names[k]] = None
            c2[k] = None
        elif c == 'v':
            d2[full_names[k]] = v2[k]
            c2[k] = v2[k]
    obj.fix_parameters(d2)
    state = _apply(state, c2)
    free = [k for k in range(n) if k not in state]
    fullv = [state.get(k, x[k]) for k in range(n)]
    A.assume(fullv)
    B.fact('names = free parameters in original order',
           list(A.names(obj)) == [full_names[k] for k in free],
           '%r vs %r' % (A.names(obj), [full_names[k] for k in free]))
    B.fact('count = number of free parameters', A.count(obj) == len(free),
           '%r vs %d' % (A.count(obj), len(free)))
    if hasattr(obj, 'n_fixed_parameters'):
        B.fact('n_fixed_parameters', obj.n_fixed_parameters() == n - len(free))
    if not free and cfg['object'][0] not in ('mech', 'pm', 'ppm'):
        return
    got = A.evaluate(obj, [x[k] for k in free], free)
    want = A.restrict(A.evaluate(A.raw(), fullv, list(range(n))), free)
    _carried(B, got, want)
    _compare(B, 'reduced = unfixed at substituted vector', got, want)
    # order independence: a fresh object with the single net dictionary
    fresh = A.reduced()
    net = {full_names[k]: v for k, v in state.items()}
    if net:
        fresh.fix_parameters(net)
    got2 = A.evaluate(fresh, [x[k] for k in free], free)
    _carried(B, got2, want)
    _compare(B, 'history = single net call', got, got2)
    B.fact('net call: names', list(A.names(fresh)) == list(A.names(obj)))
    # second evaluation of the same object: same result (buffer is not state)
    got3 = A.evaluate(obj, [x[k] for k in free], free)
    _carried(B, got3, want)
    _compare(B, 'repeated evaluation', got3, got)
    if original is not None:
        B.fact('original of the copy: names unchanged',
               list(A.names(original)) == [full_names[k] for k in pre_free],
               repr(A.names(original)))
        again = A.evaluate(original, [x[k] for k in pre_free], pre_free)
        for d_ in (pre_got, again):
            for k_ in [k_ for k_ in d_ if k_.startswith('carried ')]:
                d_.pop(k_)
        _compare(B, 'original unaffected by calls on / evaluations of its '
                 'copy', again, pre_got)


def _carried(B, got, want):
    """sensitivities returned while they were still enabled from earlier in
    the history: the restricted sensitivities of the unfixed object"""
    for k in [k for k in got if k.startswith('carried ')]:
        a = got.pop(k)
        b = want.get(k[len('carried '):])
        tag = 'sensitivities still enabled from before the call: %s' % k
        if b is None:
            B.fact(tag, False, 'no such entry for the unfixed object')
        elif isinstance(a, tuple):
            B.fact(tag, a == b, '%r vs %r' % (a, b))
        else:
            B.eq(tag, a, b)


def _compare(B, tag, got, want):
    keys = sorted(set(got) | set(want))
    for k in keys:
        if k not in got or k not in want:
            B.fact('%s: %s present on both sides' % (tag, k), False,
                   'missing in %s' % ('got' if k not in got else 'want'))
            continue
        a, b = got[k], want[k]
        if isinstance(a, (int, tuple)) and not isinstance(a, bool):
            B.fact('%s: %s' % (tag, k), a == b, '%r vs %r' % (a, b))
        else:
            B.eq('%s: %s' % (tag, k), a, b)


def case_controller(B, cfg):
    """ProblemModellingController.fix_parameters: histories of fix / re-fix /
    release calls against the posterior assembled by hand under the single
    net dictionary (the case of C14)"""
    from . import c14
    return c14.case_posterior(B, cfg)


def controller_jobs():
    from . import c14
    U = hier.unit
    seqs = [[[(0, 'v')], [(0, 'v')]], [[(1, 'v')], [(1, 'n')]],
            [[(0, 'v')], [(0, 'n'), (3, 'v')]],
            [[(0, 'v'), (2, 'v')], [(2, 'v')], [(0, 'n')]],
            [[(3, 'v')], [(1, 'v')], [(3, 'n'), (1, 'v')]],
            [[(0, 'v'), (1, 'v'), (2, 'v')], [(0, 'n'), (1, 'n'), (2, 'n')]]]
    out = []
    for k, seq in enumerate(seqs):
        out.append(('controller', 'case_controller', dict(
            model='sym', n_out=2, ems=['Gaussian', 'ConstantAndMultiplicative'],
            n_ids=2, ids=['b', 'a'], fix_seq=seq, variant={}), c14.FACADE))
        out.append(('controller', 'case_controller', dict(
            model='sym', n_out=1, ems=['Gaussian'], n_ids=2, ids=['b', 'a'],
            units=[[U('gaussian'), U('pooled')],
                   [U('lognormal_nc'), U('hetero')]][k % 2], fix_seq=seq,
            variant={'order': 'interleaved'}), c14.FACADE))
    return out


def objects(tier):
    q = tier == 'quick'
    U = hier.unit
    out = [('em', e) for e in refs.ERROR_MODELS]
    out += [('pop', [U('gaussian')], True), ('pop', [U('lognormal')], False),
            ('pop', [U('truncgauss')], True),
            ('pop', [U('gaussian_nc')], False),
            ('pop', [U('gaussian'), U('pooled')], False),
            ('pop', [U('pooled'), U('lognormal_nc')], False),
            ('pop', [U('gaussian', 1, 1)], True),
            ('mech', 3),
            ('ll', ['Gaussian']), ('ll', ['LogNormal']),
            ('pm', ['Gaussian', 'Gaussian']),
            ('pm', ['ConstantAndMultiplicative']),
            ('ppm', [U('gaussian'), U('pooled')]),
            ('ppm', [U('lognormal'), U('gaussian_nc')])]
    if not q:
        out += [('pop', [U('gaussian', 2)], True),
                ('pop', [U('lognormal_nc', 1, 1)], False),
                ('pop', [U('hetero'), U('gaussian')], False),
                ('pop', [U('lognormal', 1, 1), U('pooled')], False),
                ('mech', 4),
                ('ll', ['ConstantAndMultiplicative']),
                ('ll', ['Gaussian', 'Multiplicative']),
                ('pm', ['ConstantAndMultiplicative', 'LogNormal']),
                ('pm', ['Multiplicative'])]
    return out


def n_of(spec):
    if spec[0] == 'em':
        return refs.em_nparams(spec[1])
    if spec[0] == 'mech':
        return spec[1]
    if spec[0] == 'ppm':
        return sum(ps.p_per_dim(u['kind'], 2) * u['n_dim'] * (1 + u['cov'])
                   for u in spec[1])
    if spec[0] in ('ll', 'pm'):
        return 2 + sum(refs.em_nparams(e) for e in spec[1])
    n = 0
    for u in spec[1]:
        P = ps.p_per_dim(u['kind'], 2)
        n += P * u['n_dim'] * (1 + u['cov'])
    return n


def jobs(tier):
    out = []
    q = tier == 'quick'
    for spec in objects(tier):
        n = n_of(spec)
        pres = [p for r in range(n + 1)
                for p in itertools.combinations(range(n), r)]
        calls = list(itertools.product('anv', repeat=n))
        cap = 120 if q else 700
        combos = [(p, c) for p in pres for c in calls]
        if len(combos) > cap:
            step = len(combos) / float(cap)
            combos = [combos[int(i * step)] for i in range(cap)]
        for j, (p, c) in enumerate(combos):
            cfg = dict(object=spec, pre=p, call=c,
                       evaluate_between=(j % 2 == 1))
            if spec[0] in ('mech', 'll'):
                cfg['sens_pre'] = (j // 2) % 2 == 0
            if spec[0] == 'pop' and j % 3 == 1:
                cfg['rename_dims'] = True
            if spec[0] == 'mech' and p and j % 3 == 0:
                cfg['via_copy'] = True
            out.append(('step', 'case_step', cfg, {
                'diffcheck': j % 5 == 0, 'terms_labels': r': sample\['}))
    out += controller_jobs()
    return out


BOUNDS = dict(
    quick='19 reducible objects (2 predictive, 2 population predictive models) with 1..4 parameters; all (pre-state, call '
          'dictionary) pairs up to 120 per object (evenly spaced when there '
          'are more: 2^n * 3^n); every second transition with an evaluation '
          'between the two calls; 6 histories of fix / re-fix / release calls '
          'on the problem controller (individual and hierarchical), against '
          'the posterior assembled by hand',
    thorough='26 objects incl. 2-dim, covariate and heterogeneous population '
             'models, 4-parameter mechanistic model, two-output likelihood; '
             '<= 700 transitions per object',
    outside='SBML-backed ReducedMechanisticModel (C09/C11)')
TRUSTED = ['z3', 'RNG stub', 'the unfixed objects as reference (C01, C04, C05)']
