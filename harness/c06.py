"""C06 - samplers draw from the distribution their log-likelihood scores."""
import math

import itertools
import numpy as np

import chi

from chisym import terms as T
from chisym.sym import Sym

from . import hier, refs
from . import popspec as ps

EXPLANATION = (
    'With the RNG stub (normal = loc + scale*eps, lognormal = exp(normal), '
    'truncnorm.rvs = loc + scale*Z with Z in [a, b]) every sample returned by '
    'a chi sampler is a term in fresh standard-normal variables.  z3 decides '
    'that the term is affine (or log-affine) in its variables and that the '
    'normal (log-normal, truncated normal) law it therefore has -- mean c0, '
    'variance sum_j (ds/d eps_j)^2 -- is exactly the density chi\'s own '
    'log-likelihood evaluates (full log-density identity in a symbolic '
    'measurement y), for error models, every population model kind, composed, '
    'covariate and reduced models, plus the reported moments.  A refuted '
    'identity is replayed by drawing 2*10^5 real samples and comparing '
    'mean, variance and support with numerical integrals of the density.')

N_DRAWS = 100000


# ---------------------------------------------------------------- helpers
def eps_of(term_or_sym):
    t = term_or_sym.t if isinstance(term_or_sym, Sym) else term_or_sym
    return [n for n in T.variables([t])
            if n.startswith(('eps[', 'tz[', 'idx[', 'int[', 'unif['))]


def subst0(s, names):
    """the sample with the listed noise variables set to 0"""
    return Sym(T.substitute(Sym.lift(s).t, {n: T.ZERO for n in names}))


def affine_law(B, s, label):
    """s affine in its eps variables -> (c0, V); emits the affinity
    obligations."""
    s = Sym.lift(s)
    names = eps_of(s)
    a = [Sym(T.diff(s.t, T.var(n))) for n in names]
    for i, n in enumerate(names):
        for m in names[i:]:
            B.eq('%s: sample affine in the noise (d2/d%s d%s)' % (label, n, m),
                 Sym(T.diff(a[i].t, T.var(m))), 0)
    V = 0
    for x in a:
        V = V + x * x
    return subst0(s, names), V, names


def gaussian_logpdf(B, y, c0, V):
    return -B.log(2 * B.pi * V) / 2 - (y - c0) ** 2 / (2 * V)


def numeric_moments(logpdf, lo, hi, n=1501, logscale=False):
    """mean, variance and 0.9-quantile of exp(logpdf) on [lo, hi]."""
    if logscale:
        u = np.linspace(math.log(lo), math.log(hi), n)
        ys = np.exp(u)
        w = np.array([math.exp(logpdf(float(v))) for v in ys]) * ys
        grid = u
    else:
        ys = np.linspace(lo, hi, n)
        w = np.array([math.exp(logpdf(float(v))) for v in ys])
        grid = ys
    Z = np.trapz(w, grid)
    m = np.trapz(w * ys, grid) / Z
    v = np.trapz(w * (ys - m) ** 2, grid) / Z
    cdf = np.cumsum((w[1:] + w[:-1]) / 2 * np.diff(grid)) / Z
    q = ys[1:][np.searchsorted(cdf, 0.9)]
    return Z, m, v, q


def stat_obligations(B, label, draws, logpdf, positive=False):
    """concrete mode: empirical moments of real draws vs the density"""
    draws = np.asarray(draws, dtype=float)
    em, ev = float(np.mean(draws)), float(np.var(draws))
    sd = math.sqrt(ev) if ev > 0 else 1.0
    if positive:
        lo = max(min(draws) / 50.0, 1e-12)
        hi = max(draws) * 50.0
        Z, m, v, q = numeric_moments(logpdf, lo, hi, logscale=True)
    else:
        Z, m, v, q = numeric_moments(logpdf, em - 14 * sd, em + 14 * sd)
    B.eq('%s: sampler mean = density mean' % label, em, m, tol=2e-2)
    B.eq('%s: sampler variance = density variance' % label, ev, v, tol=3e-2)
    B.eq('%s: sampler law = density' % label,
         float(np.quantile(draws, 0.9)), q, tol=2e-2)
    return Z


# ---------------------------------------------------------------- error models
def case_em(B, cfg):
    name, nt, ns = cfg['model'], cfg['n_times'], cfg['n_samples']
    m = refs.error_model(name)
    par = B.vars('sigma', refs.em_nparams(name))
    yb = B.vars('ybar', nt)
    refs.em_assume_support(B, name, par, yb)
    rng = B.new_rng()
    if not B.symbolic:
        S = m.sample(par, yb, n_samples=N_DRAWS, seed=cfg.get('seed', 3))
        for t in range(nt):
            stat_obligations(
                B, 'time %d' % t, S[t],
                lambda y, t=t: m.compute_pointwise_ll(par, [yb[t]], [y])[0],
                positive=(name == 'LogNormal'))
        return
    S = m.sample(par, yb, n_samples=ns, seed=cfg.get('seed', 3))
    B.fact('sample shape', np.shape(S) == (nt, ns), repr(np.shape(S)))
    seen = set()
    for t in range(nt):
        for k in range(ns):
            s = Sym.lift(S[t][k])
            label = 'time %d' % t
            y = B.var('y')
            if name == 'LogNormal':
                B.assume(y > 0)
                names = eps_of(s)
                B.holds('%s: sample positive' % label, s > 0)
                ls = B.log(s)
                c0, V, names = affine_law(B, ls, label)
                ref = gaussian_logpdf(B, B.log(y), c0, V) - B.log(y)
            else:
                c0, V, names = affine_law(B, s, label)
                ref = gaussian_logpdf(B, y, c0, V)
            B.fact('%s: noise private to the cell' % label,
                   not (set(names) & seen) and len(names) >= 1, repr(names))
            seen |= set(names)
            L = m.compute_pointwise_ll(par, [yb[t]], [y])[0]
            dL = B.diff(L, y)
            center = B.exp(c0) if name == 'LogNormal' else c0
            if name == 'LogNormal':
                # mode/median bookkeeping is awkward on the log scale: use
                # the variance and the full identity only
                pass
            else:
                B.eq('%s: sampler mean = density mean' % label,
                     Sym(T.substitute(dL.t, {y.t: Sym.lift(center).t})), 0,
                     tol=2e-2)
                B.eq('%s: sampler variance = density variance' % label,
                     V * (-B.diff(dL, y)), 1, tol=3e-2)
            B.eq('%s: sampler law = density' % label, L, ref, tol=2e-2)


def case_em_reduced(B, cfg):
    """an error model with some parameters fixed draws from the model it
    scores: its sampler is the wrapped sampler, and its density the wrapped
    density, at the fixed values merged with the free ones position by
    position (sampler against sampler: independent of how well the wrapped
    sampler matches its own density)"""
    name, nt, ns, fix = (cfg['model'], cfg['n_times'], cfg['n_samples'],
                         cfg['fix'])
    full = refs.error_model(name)
    n = refs.em_nparams(name)
    par = B.vars('sigma', n)
    yb = B.vars('ybar', nt)
    refs.em_assume_support(B, name, par, yb)
    red = chi.ReducedErrorModel(refs.error_model(name))
    names = red.get_parameter_names()
    red.fix_parameters({names[k]: par[k] for k in fix})
    free = [p for k, p in enumerate(par) if k not in fix]
    B.fact('n_parameters after fixing', red.n_parameters() == len(free),
           repr(red.n_parameters()))
    y = B.vars('y', nt)
    if name == 'LogNormal':
        for v in y:
            B.assume(v > 0)
    for call in range(cfg.get('calls', 1)):
        B.new_rng()
        Sr = red.sample(list(free), yb, n_samples=ns, seed=3 + call)
        B.new_rng()
        Sf = full.sample(list(par), yb, n_samples=ns, seed=3 + call)
        B.fact('call %d: sample shape' % call, np.shape(Sr) == np.shape(Sf),
               repr(np.shape(Sr)))
        if np.shape(Sr) != np.shape(Sf):
            return
        for t in range(nt):
            for k in range(ns):
                B.eq('call %d, time %d, draw %d: reduced sampler = wrapped '
                     'sampler at the merged parameters' % (call, t, k),
                     Sr[t][k], Sf[t][k])
        Lr = red.compute_pointwise_ll(list(free), yb, y)
        Lf = full.compute_pointwise_ll(list(par), yb, y)
        for t in range(nt):
            B.eq('call %d, time %d: reduced density = wrapped density at '
                 'the merged parameters' % (call, t), Lr[t], Lf[t])


# ---------------------------------------------------------------- populations
def _pop_density(B, m, theta, covs, rows):
    """log-density of ``len(rows)`` individuals that all carry the value
    yvec in the continuous dimensions (delta dimensions carry their own
    population-level values, see ``rows``)."""
    def L(yvec):
        obs = []
        for r in rows:
            obs.append([yvec[d] if r[d] is None else r[d]
                        for d in range(len(yvec))])
        if covs is not None:
            return m.compute_log_likelihood(
                ps.arr(B, theta), ps.arr(B, obs),
                covariates=ps.arr(B, [covs for _ in rows]))
        return m.compute_log_likelihood(ps.arr(B, theta), ps.arr(B, obs))
    return L


def _delta_rows(per_dim, units, n_ids, covs):
    """per individual: None for continuous dims, the population-level value
    for pooled / heterogeneous dims"""
    rows = [[] for _ in range(n_ids)]
    d = 0
    for q, u in enumerate(units):
        for j in range(u['n_dim']):
            for i in range(n_ids):
                if u['kind'] == 'pooled':
                    rows[i].append(mus_or_pooled(per_dim, units, d, covs))
                elif u['kind'] == 'hetero':
                    rows[i].append(hetero_rows(per_dim, units, d, n_ids)[i])
                else:
                    rows[i].append(None)
            d += 1
    return rows


def _units_theta(B, units, n_ids):
    """symbolic parameter vector of a composed model (documented order) and
    the per-dimension [mu_i, sigma_i] given covariates."""
    theta, per_dim = [], []
    for q, u in enumerate(units):
        k, nd = u['kind'], u['n_dim']
        th = ps.theta_vars(B, k, nd, n_ids, prefix='th%d_' % q)
        thm = ps.theta_matrix(th, k, nd, n_ids)
        beta = []
        if u['cov']:
            for p in range(ps.p_per_dim(k)):
                for d in range(nd):
                    beta.append([B.var('beta%d_%d_%d_%d' % (q, p, d, c))
                                 for c in range(u['cov'])])
        theta += th + [b for bs in beta for b in bs]
        per_dim.append((thm, beta))
    return theta, per_dim


def case_pop(B, cfg):
    units, n_ids, ns = cfg['units'], cfg.get('n_ids', 2), cfg['n_samples']
    m = hier.make_population(units, n_ids, cfg.get('bare', False),
                             cfg.get('ctor_ids'))
    theta, per_dim = _units_theta(B, units, n_ids)
    n_cov = sum(u['cov'] for u in units)
    covs = [B.var('chi%d' % c) for c in range(n_cov)] if n_cov else None
    fixed_names = {}
    free_theta = list(theta)
    if cfg.get('fix') is not None:
        m = chi.ReducedPopulationModel(m)
        names = m.get_parameter_names()
        j = cfg['fix'] % len(names)
        m.fix_parameters({names[j]: theta[j]})
        free_theta = theta[:j] + theta[j + 1:]
    # support: transformed scales positive
    c0 = 0
    mus, sigs = [], []
    for q, u in enumerate(units):
        k, nd = u['kind'], u['n_dim']
        thm, beta = per_dim[q]
        for d in range(nd):
            if ps.is_delta(k):
                mus.append(None)
                sigs.append(None)
                continue
            mu, sg = thm[0][d], thm[1][d]
            for c in range(u['cov']):
                mu = mu + beta[0 * nd + d][c] * covs[c0 + c]
                sg = sg + beta[1 * nd + d][c] * covs[c0 + c]
            B.assume(sg > 0)
            mus.append(mu)
            sigs.append(sg)
        c0 += u['cov']
    rng = B.new_rng()
    kw = {}
    if n_cov:
        kw['covariates'] = ps.arr(B, [covs])
    n_draw = ns if B.symbolic else N_DRAWS
    try:
        S = m.sample(ps.arr(B, free_theta), n_samples=n_draw,
                     seed=cfg.get('seed', 5), **kw)
    except Exception as e:
        B.fact('no-exception:sample', False, repr(e))
        return
    D = hier.total_dim(units)
    B.fact('sample shape', np.shape(S) == (n_draw, D), repr(np.shape(S)))
    if np.shape(S) != (n_draw, D):
        return
    kinds = [u['kind'] for u in units for _ in range(u['n_dim'])]
    rows = _delta_rows(per_dim, units, n_ids, covs)
    dens = _pop_density(B, m, free_theta, covs, rows)
    if not B.symbolic:
        # point-mass dimensions: every draw is the pooled value
        Sf = np.asarray(S, dtype=float)
        for i in range(ns):
            for d, k in enumerate(kinds):
                if k == 'pooled':
                    want = float(mus_or_pooled(per_dim, units, d, covs))
                    bad = [r for r in range(len(Sf))
                           if Sf[r][d] != want]
                    B.holds('dim %d (%s): sample = pooled value' % (d, k),
                            not bad if i == 0 else
                            bool(Sf[min(i, len(Sf) - 1)][d] == want))
        return _pop_concrete(B, dens, S, kinds, ns, n_ids)
    seen = set()
    for i in range(ns):
        y = [B.var('y%d' % d) for d in range(D)]
        ref = 0
        ok = True
        for d, k in enumerate(kinds):
            s = Sym.lift(S[i][d])
            label = 'dim %d (%s)' % (d, k)
            if k == 'pooled':
                B.holds('%s: sample = pooled value' % label,
                        s == mus_or_pooled(per_dim, units, d, covs))
                y[d] = s
                continue
            if k == 'hetero':
                rows = hetero_rows(per_dim, units, d, n_ids)
                hit = False
                for ri, r in enumerate(rows):
                    if s.t is Sym.lift(r).t:
                        hit = True
                        # support of the sampler = all modelled individuals
                        B.cover('%s, sample %d: the individual drawn'
                                % (label, i), ri, expect=range(n_ids))
                B.fact('%s: sample is one individual\'s value' % label, hit)
                B.fact('%s: individuals are drawn with equal weights' % label,
                       all(w is None for w in rng.choice_weights),
                       repr(rng.choice_weights))
                y[d] = s
                continue
            if k == 'truncgauss':
                call = rng.truncnorm.calls[-1] if rng.truncnorm.calls \
                    else None
                names = eps_of(s)
                B.fact('%s: one truncated-normal draw' % label,
                       len(names) == 1 and names[0].startswith('tz['),
                       repr(names))
                if len(names) != 1 or not names[0].startswith('tz['):
                    ok = False
                    continue
                z = Sym.var(names[0])
                a, b = rng.draws[names[0]].info
                B.fact('%s: upper truncation at +inf' % label,
                       isinstance(b, float) and b == math.inf, repr(b))
                scale = B.diff(s, z)
                loc = subst0(s, names)
                B.eq('%s: sampler support starts at 0' % label,
                     loc + a * scale, 0, tol=1e-2)
                B.assume(z >= a)
                B.assume(y[d] >= 0)
                # density of loc + scale * Z, Z ~ N(0,1) | Z >= a, at y
                zy = (y[d] - loc) / scale
                ref = ref + (-B.log(2 * B.pi) / 2 - zy * zy / 2
                             - B.log(scale)
                             - B.log(1 - ps.norm_cdf(B, a)))
                seen |= set(names)
                continue
            if k == 'lognormal':
                B.holds('%s: sample positive' % label, s > 0)
                B.assume(y[d] > 0)
                c0_, V, names = affine_law(B, B.log(s), label)
                ref = ref + gaussian_logpdf(B, B.log(y[d]), c0_, V) \
                    - B.log(y[d])
            else:
                c0_, V, names = affine_law(B, s, label)
                ref = ref + gaussian_logpdf(B, y[d], c0_, V)
                if ps.is_nc(k):
                    # after the model's own transform: psi ~ documented law
                    base = 'gaussian' if k == 'gaussian_nc' else 'lognormal'
                    psi = ps.transform(B, k, [mus[d], sigs[d]], s)
                    if base == 'gaussian':
                        p0, PV, _ = affine_law(B, psi, label + ' psi')
                        B.eq('%s: E psi = mu' % label, p0, mus[d])
                        B.eq('%s: Var psi = sigma^2' % label, PV,
                             sigs[d] * sigs[d])
                    else:
                        p0, PV, _ = affine_law(B, B.log(psi), label + ' psi')
                        B.eq('%s: E log psi = mu' % label, p0, mus[d])
                        B.eq('%s: Var log psi = sigma^2' % label, PV,
                             sigs[d] * sigs[d])
            B.fact('%s: noise private to the cell' % label,
                   not (set(names) & seen) and len(names) >= 1, repr(names))
            seen |= set(names)
        if ok:
            B.eq('sample %d: sampler law = density' % i, dens(y),
                 n_ids * ref, tol=2e-2)


def _cell(a, d):
    if isinstance(a, np.ndarray):
        return a.reshape(-1)[d] if a.size > 1 else a.reshape(-1)[0]
    return a


def mus_or_pooled(per_dim, units, d, covs):
    k = 0
    c0 = 0
    for q, u in enumerate(units):
        for j in range(u['n_dim']):
            if k == d:
                thm, beta = per_dim[q]
                v = thm[0][j]
                for c in range(u['cov']):
                    v = v + beta[j][c] * covs[c0 + c]
                return v
            k += 1
        c0 += u['cov']


def hetero_rows(per_dim, units, d, n_ids):
    k = 0
    for q, u in enumerate(units):
        for j in range(u['n_dim']):
            if k == d:
                thm, _ = per_dim[q]
                return [thm[i][j] for i in range(n_ids)]
            k += 1


def _pop_concrete(B, dens, S, kinds, ns, n_ids):
    S = np.asarray(S, dtype=float)
    means = S.mean(axis=0)
    worst = (0.0, 0.0)
    for d, k in enumerate(kinds):
        label = 'dim %d (%s)' % (d, k)
        if k in ('pooled', 'hetero'):
            continue

        def lp(y, d=d):
            row = list(means)
            row[d] = y
            return dens(row) / n_ids
        col = S[:, d]
        if k == 'truncgauss':
            B.eq('%s: sampler support starts at 0' % label,
                 float(col.min()), 0.0, tol=1e-2)
            lo, hi = 1e-9, col.max() * 3 + 10 * col.std()
            Z, mm, vv, q = numeric_moments(lp, lo, hi)
        elif k == 'lognormal':
            Z, mm, vv, q = numeric_moments(
                lp, max(col.min() / 50, 1e-12), col.max() * 50,
                logscale=True)
        else:
            Z, mm, vv, q = numeric_moments(
                lp, col.mean() - 14 * col.std(), col.mean() + 14 * col.std())
        eq90 = float(np.quantile(col, 0.9))
        if abs(eq90 - q) / (1 + abs(q)) >= abs(worst[0] - worst[1]) / (
                1 + abs(worst[1])):
            worst = (eq90, q)
    for i in range(ns):
        B.eq('sample %d: sampler law = density' % i, worst[0], worst[1],
             tol=2e-2)


# ---------------------------------------------------------------- moments
def case_moments(B, cfg):
    kind, n_dim = cfg['kind'], cfg['n_dim']
    m = ps.make(kind, n_dim)
    th = ps.theta_vars(B, kind, n_dim)
    thm = ps.theta_matrix(th, kind, n_dim)
    ps.assume_support(B, kind, thm)
    out = m.get_mean_and_std(ps.arr(B, th))
    B.fact('moments shape', np.shape(out) == (2, n_dim), repr(np.shape(out)))
    if np.shape(out) != (2, n_dim):
        return
    for d in range(n_dim):
        mu, s = thm[0][d], thm[1][d]
        if kind == 'lognormal':
            # E exp(mu + s eps) = exp(mu + s^2/2)   (E e^{a eps} = e^{a^2/2})
            mean = B.exp(mu + s * s / 2)
            var = B.exp(2 * mu + s * s) * (B.exp(s * s) - 1)
        else:
            # textbook truncated normal on [0, inf): alpha = -mu/s
            al = -mu / s
            phi = B.exp(-al * al / 2) / B.sqrt(2 * B.pi)
            Zn = 1 - ps.norm_cdf(B, al)
            mean = mu + s * phi / Zn
            var = s * s * (1 + al * phi / Zn - (phi / Zn) ** 2)
        B.eq('mean[%d]' % d, out[0][d], mean)
        sd = out[1][d]
        if B.symbolic and isinstance(sd, Sym) and sd.t.op == 'f' and \
                sd.t.args[0] == 'sqrt':
            # std is returned as sqrt(R): decide R = variance (positivity of
            # the truncated-normal variance is analysis, not arithmetic)
            B.eq('std[%d]^2 = variance' % d, Sym(sd.t.args[1]), var)
        else:
            B.eq('std[%d]^2 = variance' % d, sd * sd, var)
            B.holds('std[%d] >= 0' % d, sd >= 0)


def jobs(tier):
    out = []
    q = tier == 'quick'
    for name in refs.ERROR_MODELS:
        for nt in ([1, 2] if q else [1, 2, 3]):
            for ns in ([1, 2] if q else [1, 2, 3]):
                out.append(('em', 'case_em', dict(
                    model=name, n_times=nt, n_samples=ns),
                    {'replay_candidates': 1}))
    for name in refs.ERROR_MODELS:
        n = refs.em_nparams(name)
        subsets = [[]] + [list(c) for r in range(1, n + 1)
                          for c in itertools.combinations(range(n), r)]
        for fix in subsets:
            for nt, ns in ([(2, 1), (1, 2)] if q else [(2, 2), (3, 1)]):
                out.append(('em_reduced', 'case_em_reduced', dict(
                    model=name, n_times=nt, n_samples=ns, fix=fix,
                    calls=2), {'diffcheck': False, 'replay_candidates': 1}))
    for kind in ps.KINDS:
        for nd in ([1, 2] if q else [1, 2, 3]):
            for ns in ([1, 2] if q else [1, 2, 3]):
                for bare in (True, False):
                    out.append(('pop', 'case_pop', dict(
                        units=[hier.unit(kind, nd)], n_samples=ns, bare=bare,
                        n_ids=2), {'max_paths': 600, 'replay_candidates': 1, 'facts_final': True}))
    pairs = [('gaussian', 'lognormal'), ('pooled', 'gaussian_nc'),
             ('lognormal_nc', 'hetero'), ('truncgauss', 'gaussian'),
             ('hetero', 'pooled')]
    if not q:
        pairs = [(a, b) for a in ps.KINDS for b in ps.KINDS]
    for a, b in pairs:
        out.append(('pop', 'case_pop', dict(
            units=[hier.unit(a, 1), hier.unit(b, 2 if not q else 1)],
            n_samples=2, n_ids=2), {'max_paths': 600, 'replay_candidates': 1, 'facts_final': True}))
    # heterogeneous model resized after construction (set_n_ids), bare and
    # inside a composition: every individual stays in the sampler's support
    for n_ids, ctor in ((3, 1), (2, 1), (3, 2), (2, 3)) if q else \
            ((3, 1), (2, 1), (3, 2), (2, 3), (4, 1), (4, 2), (1, 3)):
        for nd in (1, 2):
            out.append(('pop', 'case_pop', dict(
                units=[hier.unit('hetero', nd)], n_samples=1 + (nd % 2),
                bare=True, n_ids=n_ids, ctor_ids=ctor),
                {'max_paths': 600, 'facts_final': True}))
        out.append(('pop', 'case_pop', dict(
            units=[hier.unit('gaussian', 1), hier.unit('hetero', 1)],
            n_samples=2, n_ids=n_ids, ctor_ids=ctor),
            {'max_paths': 600, 'facts_final': True}))
    covk = ['gaussian', 'lognormal', 'gaussian_nc', 'pooled', 'truncgauss',
            'lognormal_nc']
    for k in covk:
        for nc in ([1] if q else [1, 2]):
            for bare in (True, False):
                out.append(('pop', 'case_pop', dict(
                    units=[hier.unit(k, 1, nc)], n_samples=2, bare=bare,
                    n_ids=2), {'replay_candidates': 1, 'facts_final': True}))
            out.append(('pop', 'case_pop', dict(
                units=[hier.unit(k, 1, nc), hier.unit('gaussian', 1)],
                n_samples=1, n_ids=2), {}))
    # several covariate-dependent sub-models: each samples conditional on
    # its own covariate columns
    for a, ca, b, cb in (('gaussian', 1, 'lognormal', 1),
                         ('lognormal_nc', 2, 'gaussian', 1),
                         ('gaussian', 1, 'pooled', 1)):
        out.append(('pop', 'case_pop', dict(
            units=[hier.unit(a, 1, ca), hier.unit(b, 1, cb)], n_samples=2,
            n_ids=2), {'replay_candidates': 1, 'facts_final': True}))
    for j, k in enumerate(['gaussian', 'lognormal', 'truncgauss',
                           'gaussian_nc']):
        out.append(('pop', 'case_pop', dict(
            units=[hier.unit(k, 1), hier.unit('pooled', 1)], n_samples=1,
            n_ids=2, fix=j), {}))
    for kind in ('lognormal', 'truncgauss'):
        for nd in ([1, 2] if q else [1, 2, 3]):
            out.append(('moments', 'case_moments',
                        dict(kind=kind, n_dim=nd), {}))
    return out


BOUNDS = dict(
    quick='4 error models x n_times 1..2 x n_samples 1..2; the same with '
          'every subset of error parameters fixed (ReducedErrorModel, two '
          'calls in a row); 7 population '
          'kinds x n_dim 1..2 x n_samples 1..2 (bare and composed); 5 '
          'two-unit compositions; covariate variants (1 covariate; two covariate sub-models in one composition); reduced '
          'variants; moments for n_dim 1..2',
    thorough='n_times, n_samples, n_dim up to 3; all 49 two-unit '
             'compositions; 1-2 covariates',
    outside='the pseudo-random bit generator itself (trusted to deliver '
            'i.i.d. standard normals as documented); larger sample counts')
TRUSTED = ['RNG stub contract (chisym/facade_rng.py) = NumPy/SciPy '
           'documentation', 'closure of independent Gaussians under affine '
           'maps', 'E exp(a eps) = exp(a^2/2)', 'z3', 'erf axioms']
