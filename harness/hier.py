"""
Builder for hierarchical objects and the names-driven specification
interpreter (shared by C02, C03, C17, C18).
"""
import numpy as np

import chi

from . import popspec as ps
from .stubs import SymMechModel, SymPrior

ROLES = {
    'gaussian': ('Mean', 'Std.'), 'gaussian_nc': ('Mean', 'Std.'),
    'lognormal': ('Log mean', 'Log std.'),
    'lognormal_nc': ('Log mean', 'Log std.'),
    'truncgauss': ('Mu', 'Sigma'), 'pooled': ('Pooled',),
}


def unit(kind, n_dim=1, cov=0, sel=None):
    u = dict(kind=kind, n_dim=n_dim, cov=cov)
    if sel is not None:
        # covariate model acting on a selection of [parameter, dimension]
        # pairs only (applied after the dimension names were set)
        u['sel'] = [list(x) for x in sel]
    return u


def total_dim(units):
    return sum(u['n_dim'] for u in units)


def make_population(units, n_ids, bare=False, ctor_ids=None):
    models = []
    for u in units:
        m = ps.make(u['kind'], u['n_dim'], n_ids, ctor_ids)
        if u['cov']:
            m = chi.CovariatePopulationModel(
                m, chi.LinearCovariateModel(n_cov=u['cov']))
        models.append(m)
    if bare and len(models) == 1:
        return models[0]
    m = chi.ComposedPopulationModel(models)
    if ctor_ids is not None:
        m.set_n_ids(n_ids)
    return m


TIMES = [[1.0], [1.0, 2.5], [0.0, 2.5], [4.0]]


def make_likelihoods(B, n_ids, n_mech, em='Gaussian', n_out=1):
    """Real chi.LogLikelihood objects over the uninterpreted model, one per
    individual, with different sampling times."""
    from . import refs
    lls, obs_all = [], []
    mm = SymMechModel(B, n_params=n_mech, n_outputs=n_out)
    for i in range(n_ids):
        times = [TIMES[(i + o) % len(TIMES)] for o in range(n_out)]
        obs = [[B.var('y%d_%d_%d' % (i, o, j)) for j in range(len(times[o]))]
               for o in range(n_out)]
        ems = [refs.error_model(em) for _ in range(n_out)]
        ll = chi.LogLikelihood(mm, ems, obs, times)
        lls.append(ll)
        obs_all.append(obs)
    return mm, lls, obs_all


def build(B, cfg):
    """cfg: units, n_ids, n_mech, bare, fix (index of a population parameter
    to fix or None).  Returns a dict with everything the cases need."""
    units = cfg['units']
    n_ids = cfg['n_ids']
    n_dim = total_dim(units)
    n_mech = n_dim - 1
    mm, lls, obs = make_likelihoods(B, n_ids, n_mech)
    if cfg.get('id_labels'):
        # user-chosen individual labels, in data order (not sorted)
        for ll_, lab in zip(lls, cfg['id_labels']):
            ll_.set_id(lab)
    ll_names = lls[0].get_parameter_names()
    if any(u.get('sel') for u in units):
        # sub-models are configured completely (dimension names, then the
        # selection of covariate-shifted parameters) *before* they are
        # composed: the composite caches their counts
        models, dim = [], 0
        for u in units:
            m_ = ps.make(u['kind'], u['n_dim'], n_ids)
            if u['cov']:
                m_ = chi.CovariatePopulationModel(
                    m_, chi.LinearCovariateModel(n_cov=u['cov']))
            m_.set_dim_names(ll_names[dim:dim + u['n_dim']])
            if u.get('sel'):
                m_.set_population_parameters(u['sel'])
            models.append(m_)
            dim += u['n_dim']
        pop = models[0] if cfg.get('bare') and len(models) == 1 else \
            chi.ComposedPopulationModel(models)
    else:
        pop = make_population(units, n_ids, cfg.get('bare', False))
        pop.set_dim_names(ll_names)
    fixed = {}
    if cfg.get('fix') is not None:
        pop = chi.ReducedPopulationModel(pop)
        names = pop.get_parameter_names()
        name = names[cfg['fix'] % len(names)]
        v = B.var('fixed_value')
        fixed[name] = v
        pop.fix_parameters({name: v})
    if cfg.get('fix_all'):
        # every population parameter fixed: no top-level entries are left
        pop = chi.ReducedPopulationModel(pop)
        for k, name in enumerate(pop.get_parameter_names()):
            fixed[name] = B.var('fixed_value%d' % k)
        pop.fix_parameters(dict(fixed))
    n_cov = sum(u['cov'] for u in units)
    covs = None
    if n_cov:
        covs = [[B.var('chi%d_%d' % (i, c)) for c in range(n_cov)]
                for i in range(n_ids)]
    hl = chi.HierarchicalLogLikelihood(
        lls, pop, covariates=ps.arr(B, covs) if covs else None)
    return dict(mm=mm, lls=lls, obs=obs, pop=pop, hl=hl, ll_names=ll_names,
                covs=covs, fixed=fixed, units=units, n_ids=n_ids)


class SpecError(Exception):
    pass


def spec(B, H, val, ids_unique, assume=True):
    """Names-driven reference: val maps (id or None, name) -> scalar.
    Returns (total log-likelihood, psi matrix, population part, parts)."""
    units, n_ids = H['units'], H['n_ids']
    ll_names = H['ll_names']
    fixed = H['fixed']
    covs = H['covs']

    def top(name):
        if name in fixed:
            return fixed[name]
        key = (None, name)
        if key not in val:
            raise SpecError('no population-level entry named %r' % name)
        return val[key]

    def bottom(i, name):
        key = (ids_unique[i], name)
        if key not in val:
            raise SpecError('no entry named %r for individual %r' % key)
        return val[key]

    dim = 0
    cov0 = 0
    pop_part = 0
    psi = [[None] * len(ll_names) for _ in range(n_ids)]
    for u in units:
        kind = u['kind']
        for d in range(u['n_dim']):
            dn = ll_names[dim]
            if kind == 'pooled':
                v = top('Pooled ' + dn)
                for i in range(n_ids):
                    vi = v
                    for c in range(u['cov']):
                        cn = 'Cov. %d' % (c + 1)
                        vi = vi + top('Pooled %s %s' % (dn, cn)) \
                            * covs[i][cov0 + c]
                    psi[i][dim] = vi
            elif kind == 'hetero':
                for i in range(n_ids):
                    psi[i][dim] = top('ID %d %s' % (i + 1, dn))
            else:
                r0, r1 = ROLES[kind]
                m0, s0 = top('%s %s' % (r0, dn)), top('%s %s' % (r1, dn))
                sel = u.get('sel')
                on0 = sel is None or [0, d] in sel
                on1 = sel is None or [1, d] in sel
                for i in range(n_ids):
                    mi, si = m0, s0
                    for c in range(u['cov']):
                        cn = 'Cov. %d' % (c + 1)
                        x = covs[i][cov0 + c]
                        if on0:
                            mi = mi + top('%s %s %s' % (r0, dn, cn)) * x
                        if on1:
                            si = si + top('%s %s %s' % (r1, dn, cn)) * x
                    x = bottom(i, dn)
                    if assume:
                        B.assume(si > 0)
                        if kind == 'lognormal':
                            B.assume(x > 0)
                        if kind == 'truncgauss':
                            B.assume(x >= 0)
                    pop_part = pop_part + ps.logpdf(B, kind, [mi, si], x)
                    psi[i][dim] = ps.transform(B, kind, [mi, si], x)
            dim += 1
        cov0 += u['cov']
    return pop_part, psi


def vector(B, hl):
    """A fresh symbolic vector for the hierarchical object and the map
    (id, name) -> entry built from the *published* names and IDs."""
    n = hl.n_parameters()
    x = [B.var('x%d' % k) for k in range(n)]
    names = hl.get_parameter_names()
    ids = hl.get_id()
    return x, names, ids
