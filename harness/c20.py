"""C20 - figures faithfully render the supplied data and prediction bands."""
import itertools

import numpy as np

import chi
import chi.plots

from chisym.sym import Sym

EXPLANATION = (
    'The four time-series figure classes (PDTimeSeriesPlot, PKTimeSeriesPlot, '
    'PDPredictivePlot, PKPredictivePlot) are run on pandas frames whose '
    'structure (IDs, observables, which cells are missing, row order, column '
    'keys) is concrete and whose times, values, doses, durations and '
    'predictive samples are symbolic (object columns; plotly carries them '
    'through as object arrays).  add_data / add_simulation: the traces of the '
    'figure are compared cell by cell with the ground truth (one marker trace '
    'per individual of the chosen observable with exactly its (time, value) '
    'pairs in row order; dose panels with exactly its dose rows; the frame '
    'passed in is compared cell by cell with a snapshot).  add_prediction '
    'with bulk probabilities: pandas\' rank / max / min compare the symbolic '
    'samples, every comparison is a decision of the explorer, so each path is '
    'one weak ordering of the samples of every time point (ties included); on '
    'each path z3 decides, for every time point and probability, that both '
    'limits are sample values of that time point, that at least the '
    'requested fraction of its samples lies between them, and that the bands '
    'are nested for increasing probabilities.')

FACADE = {'diffcheck': False, 'max_paths': 4000, 'max_decisions': 4000}
NAN = float('nan')


def _missing(v):
    return v is None or (isinstance(v, float) and v != v)


def _is(a, b):
    """the same sample: the same term (symbolic run) / number (replay)"""
    if isinstance(a, Sym) and isinstance(b, Sym):
        return a.t is b.t
    if isinstance(a, Sym) or isinstance(b, Sym):
        return False
    return a == b


def _snapshot(df):
    return [(c, [v for v in df[c]]) for c in df.columns]


def _same_cell(a, b):
    if a is b:
        return True
    if isinstance(a, float) and isinstance(b, float):
        return (a != a and b != b) or a == b
    if isinstance(a, Sym) or isinstance(b, Sym):
        return False
    return a == b


def _unchanged(df, snap):
    if [c for c, _ in snap] != list(df.columns):
        return False
    for c, vals in snap:
        now = [v for v in df[c]]
        if len(now) != len(vals) or not all(
                _same_cell(a, b) for a, b in zip(now, vals)):
            return False
    return True


def _cells(B, tag, got, want):
    got = list(got) if got is not None else []
    B.fact('%s: number of points' % tag, len(got) == len(want),
           '%d vs %d' % (len(got), len(want)))
    for k, (a, b) in enumerate(zip(got, want)):
        if isinstance(a, Sym) or isinstance(b, Sym):
            B.eq('%s: point %d' % (tag, k), a, b)
        else:
            B.fact('%s: point %d' % (tag, k), _same_cell(a, b),
                   '%r vs %r' % (a, b))


# ------------------------------------------------------------------- data
def data_frame(B, cfg):
    """rows per individual: 'a'/'b' measurement of observable A/B, 'n'
    measurement of A with a missing value, 'd' dose row, 'x' dose row that
    also carries a measurement of A"""
    import pandas as pd
    keys = cfg.get('keys', dict(id='ID', time='Time', obs='Observable',
                                value='Value', dose='Dose',
                                duration='Duration'))
    per = []
    truth = {}
    # labels of the two observables in the frame (any hashable works as a
    # label: strings, numeric codes, the code 0, the empty string)
    L = cfg.get('obs_labels') or {'A': 'A', 'B': 'B'}
    for i, (lab, kinds) in enumerate(zip(cfg['ids'], cfg['layout'])):
        rows = []
        tr = dict(A=[], B=[], doses=[])
        for j, k in enumerate(kinds):
            t = B.var('t%d_%d' % (i, j))
            r = {keys['id']: lab, keys['time']: t, keys['obs']: NAN,
                 keys['value']: NAN, keys['dose']: NAN,
                 keys['duration']: NAN}
            if k in 'ab':
                v = B.var('v%d_%d' % (i, j))
                r[keys['obs']] = L['A'] if k == 'a' else L['B']
                r[keys['value']] = v
                tr['A' if k == 'a' else 'B'].append((t, v))
            elif k == 'n':
                r[keys['obs']] = L['A']
                tr['A'].append((t, NAN))
            elif k in 'dx':
                d, u = B.var('d%d_%d' % (i, j)), B.var('u%d_%d' % (i, j))
                r[keys['dose']] = d
                r[keys['duration']] = u
                tr['doses'].append((t, d, u))
                if k == 'x':
                    # a measurement noted on the dose record
                    v = B.var('v%d_%d' % (i, j))
                    r[keys['obs']] = L['A']
                    r[keys['value']] = v
                    tr['A'].append((t, v))
            rows.append(r)
        per.append(rows)
        truth[lab] = tr
    if cfg.get('order') == 'interleaved':
        flat = []
        k = 0
        while any(k < len(rows) for rows in per):
            for rows in per:
                if k < len(rows):
                    flat.append(rows[k])
            k += 1
    else:
        flat = [r for rows in per for r in rows]
    cols = [keys[c] for c in ('id', 'time', 'obs', 'value', 'dose',
                              'duration')]
    if cfg.get('extra_column'):
        for r in flat:
            r['Note'] = 'x'
        cols = ['Note'] + cols
    df = pd.DataFrame(flat, columns=cols)
    return df, truth, keys, flat


def _lab_eq(a, b):
    if isinstance(a, float) and a != a:
        return False
    return type(a) is type(b) and a == b or (
        isinstance(a, (int, float)) and isinstance(b, (int, float))
        and not isinstance(a, bool) and a == b)


def case_data(B, cfg):
    df, truth, keys, flat = data_frame(B, cfg)
    snap = _snapshot(df)
    cls = getattr(chi.plots, cfg['figure'])
    fig = cls()
    which = cfg.get('observable', 'A')
    L = cfg.get('obs_labels') or {'A': 'A', 'B': 'B'}
    obs = L[which]
    pk = cfg['figure'].startswith('PK')
    kw = dict(observable=obs, id_key=keys['id'], time_key=keys['time'],
              obs_key=keys['obs'], value_key=keys['value'])
    if pk:
        kw.update(dose_key=keys['dose'], dose_duration_key=keys['duration'])
    present = any(_lab_eq(r[keys['obs']], obs) for r in flat)
    try:
        fig.add_data(df, **kw)
    except ValueError as e:
        B.fact('only an observable that is not in the frame is rejected',
               not present, repr(e))
        return
    except Exception as e:
        B.fact('no-exception:add_data', False, repr(e))
        return
    B.fact('an observable that is not in the frame is rejected', present)
    B.fact('the caller\'s frame is not modified', _unchanged(df, snap))
    # individuals with rows of the chosen observable, in order of appearance
    order = []
    for r in flat:
        if _lab_eq(r[keys['obs']], obs) and r[keys['id']] not in order:
            order.append(r[keys['id']])
    traces = list(fig._fig.data)
    marker = [t for t in traces if getattr(t, 'showlegend', None) is not False
              or not pk]
    if pk:
        dose_tr = [t for t in traces if t.showlegend is False]
        marker = [t for t in traces if t.showlegend is not False]
        B.fact('one dose trace per individual', len(dose_tr) == len(order),
               '%d vs %d' % (len(dose_tr), len(order)))
        for t_, lab in zip(dose_tr, order):
            B.fact('dose trace of %s labelled with its ID' % lab,
                   t_.name == 'ID: %s' % lab, repr(t_.name))
            want = truth[lab]['doses']
            _cells(B, 'dose times of %s' % lab, t_.x, [w[0] for w in want])
            _cells(B, 'dose amounts of %s' % lab, t_.y, [w[1] for w in want])
            B.fact('dose durations of %s in the hover text' % lab,
                   list(t_.text or []) == ['Dose duration: ' + str(w[2])
                                            for w in want], repr(t_.text))
    B.fact('one marker trace per individual of the observable',
           len(marker) == len(order), '%d vs %d' % (len(marker), len(order)))
    for t_, lab in zip(marker, order):
        B.fact('trace of %s labelled with its ID' % lab,
               t_.name == 'ID: %s' % lab, repr(t_.name))
        want = truth[lab][which]
        _cells(B, 'times of %s' % lab, t_.x, [w[0] for w in want])
        _cells(B, 'values of %s' % lab, t_.y, [w[1] for w in want])
    if cfg['figure'] == 'PDTimeSeriesPlot':
        import pandas as pd
        sim = pd.DataFrame({'Time': [B.var('st%d' % k) for k in range(3)],
                            'Value': [B.var('sv%d' % k) for k in range(3)]})
        ssnap = _snapshot(sim)
        n0 = len(fig._fig.data)
        fig.add_simulation(sim)
        B.fact('simulation: one more trace', len(fig._fig.data) == n0 + 1)
        _cells(B, 'simulation times', fig._fig.data[-1].x, list(sim['Time']))
        _cells(B, 'simulation values', fig._fig.data[-1].y,
               list(sim['Value']))
        B.fact('simulation frame not modified', _unchanged(sim, ssnap))


# ------------------------------------------------------------------ bands
def case_bands(B, cfg):
    import pandas as pd
    times = cfg['times']                     # concrete, distinct
    n = cfg['n_samples']
    probs = cfg['probs']
    rows = []
    S = {}
    for k, t in enumerate(times):
        S[t] = [B.var('s%d_%d' % (k, j)) for j in range(n[k])]
        if cfg.get('ranks'):
            # larger samples: one strict ordering (row j holds the sample of
            # rank ranks[j]); all real values consistent with it
            rk = cfg['ranks']
            by_rank = sorted(range(n[k]), key=lambda j: rk[j % len(rk)] * 1000
                             + j)
            for a, b in zip(by_rank, by_rank[1:]):
                if rk[a % len(rk)] == rk[b % len(rk)]:
                    B.assume(S[t][a] == S[t][b])    # a tie
                else:
                    B.assume(S[t][a] < S[t][b])
        if cfg.get('distinct'):
            # bound on the number of paths: strict orderings only
            for a, b in itertools.combinations(S[t], 2):
                B.assume(a != b)
    # samples interleaved over the time points, plus another observable
    for j in range(max(n)):
        for k, t in enumerate(times):
            if j < n[k]:
                rows.append({'Time': t, 'Observable': 'A', 'Value': S[t][j]})
        rows.append({'Time': times[0], 'Observable': 'B',
                     'Value': B.var('other%d' % j)})
    cols = ['Time', 'Observable', 'Value']
    pk = cfg['figure'].startswith('PK')
    doses = []
    if pk:
        cols += ['Dose', 'Duration']
        for r in rows:
            r.update(Dose=NAN, Duration=NAN)
        for j in range(2):
            d = (0.5 + j, B.var('pd%d' % j), B.var('pu%d' % j))
            doses.append(d)
            rows.insert(2 * j, {'Time': d[0], 'Observable': NAN,
                                'Value': NAN, 'Dose': d[1],
                                'Duration': d[2]})
    if cfg.get('nan_sample'):
        # a sample without a value (not part of the samples of its time)
        rows.append(dict(rows[-1], Time=times[0], Observable='A', Value=NAN))
    df = pd.DataFrame(rows, columns=cols)
    if cfg.get('repeated_index'):
        # index labels repeat, as in a frame concatenated block by block
        # without ignore_index (what PosteriorPredictiveModel.sample returns)
        df.index = [k % 2 for k in range(len(df))]
    snap = _snapshot(df)
    fig = getattr(chi.plots, cfg['figure'])()
    try:
        fig.add_prediction(df, observable='A', bulk_probs=list(probs))
    except Exception as e:
        B.fact('no-exception:add_prediction', False, repr(e))
        return
    B.fact('the caller\'s frame is not modified', _unchanged(df, snap))
    if pk:
        dt = [t for t in fig._fig.data if t.fill != 'toself']
        B.fact('one dose trace for the prediction', len(dt) == 1)
        if len(dt) == 1:
            _cells(B, 'prediction dose times', dt[0].x, [d[0] for d in doses])
            _cells(B, 'prediction dose amounts', dt[0].y,
                   [d[1] for d in doses])
    traces = [t for t in fig._fig.data if t.fill == 'toself']
    B.fact('one band per bulk probability', len(traces) == len(set(probs)),
           '%d vs %d' % (len(traces), len(set(probs))))
    T_ = len(times)
    bands = {}
    for tr in traces:
        p = float(str(tr.text).split()[0])
        x, y = list(tr.x), list(tr.y)
        ok = len(x) == 2 * T_ and len(y) == 2 * T_
        xs = [float(v) for v in x] if ok else []
        B.fact('band %s: polygon over every time point once and back' % p,
               ok and sorted(xs[:T_]) == sorted(times) and
               xs[T_:] == xs[:T_][::-1], repr(x))
        if not (ok and sorted(xs[:T_]) == sorted(times)
                and xs[T_:] == xs[:T_][::-1]):
            continue
        # the limits drawn *at* time t, wherever t sits in the polygon
        at = {t_: i for i, t_ in enumerate(xs[:T_])}
        upper = [y[at[t_]] for t_ in times]
        lower = [y[2 * T_ - 1 - at[t_]] for t_ in times]
        bands[p] = (lower, upper)
        for k, t in enumerate(times):
            L, U = lower[k], upper[k]
            if _missing(L) or _missing(U):
                # a limit does not exist (documented for small sample sizes)
                continue
            B.fact('band %s, t=%s: limits are samples of that time point'
                   % (p, t), any(_is(L, s) for s in S[t]) and
                   any(_is(U, s) for s in S[t]),
                   '%r, %r' % (L, U))
            inside = 0
            for s in S[t]:
                if bool((L <= s) & (s <= U)):
                    inside += 1
            B.fact('band %s, t=%s: encloses at least that fraction of the '
                   'samples' % (p, t), inside >= p * len(S[t]) - 1e-12,
                   '%d of %d' % (inside, len(S[t])))
    ps_ = sorted(bands)
    for a, b in zip(ps_, ps_[1:]):
        for k, t in enumerate(times):
            La, Ua = bands[a][0][k], bands[a][1][k]
            Lb, Ub = bands[b][0][k], bands[b][1][k]
            if not any(_missing(v) for v in (La, Ua, Lb, Ub)):
                B.holds('bands nested at t=%s: %s inside %s' % (t, a, b),
                        (Lb <= La) & (Ua <= Ub))


def case_scatter(B, cfg):
    """add_prediction without bulk probabilities: the samples themselves"""
    import pandas as pd
    rows = []
    want_t, want_v = [], []
    for j in range(4):
        t, v = B.var('pt%d' % j), B.var('pv%d' % j)
        o = 'A' if j != 2 else 'B'
        rows.append({'Time': t, 'Observable': o, 'Value': v})
        if o == 'A':
            want_t.append(t)
            want_v.append(v)
    if cfg['figure'].startswith('PK'):
        for r in rows:
            r.update(Dose=NAN, Duration=NAN)
    df = pd.DataFrame(rows)
    fig = getattr(chi.plots, cfg['figure'])()
    fig.add_prediction(df, observable='A', bulk_probs=None)
    tr = fig._fig.data[-1]
    _cells(B, 'sample times', tr.x, want_t)
    _cells(B, 'sample values', tr.y, want_v)


def jobs(tier):
    out = []
    q = tier == 'quick'
    figs = ['PDTimeSeriesPlot', 'PKTimeSeriesPlot', 'PDPredictivePlot',
            'PKPredictivePlot']
    layouts = [['a', 'a'], ['a', 'b', 'a'], ['d', 'a', 'd'], ['b', 'a', 'n'],
               ['d', 'b'], ['a'], ['x', 'a'], ['x']]
    k = 0
    for f in figs:
        for l1, l2 in itertools.product(layouts, repeat=2):
            k += 1
            if q and k % 3:
                continue
            for order in ('blocks', 'interleaved'):
                out.append(('data', 'case_data', dict(
                    figure=f, ids=[['b', 'a'], [10, 9]][k % 2],
                    layout=[l1, l2, ['a', 'd']], order=order,
                    observable='A' if k % 5 else 'B',
                    extra_column=(k % 4 == 0),
                    keys=None if k % 3 else dict(
                        id='Subject', time='t', obs='Biomarker', value='y',
                        dose='Amount', duration='Length')),
                    {'diffcheck': False}))
    # other kinds of observable labels: numeric codes (incl. 0), the empty
    # string; the chosen one is not the first in the column
    for f in figs:
        for labels, which in (({'A': 0, 'B': 1}, 'A'), ({'A': 1, 'B': 0}, 'B'),
                              ({'A': '', 'B': 'x'}, 'A'),
                              ({'A': 2, 'B': 1}, 'A')):
            out.append(('data', 'case_data', dict(
                figure=f, ids=['b', 'a'],
                layout=[['b', 'a', 'b'], ['a', 'd', 'b'], ['a']][
                    ::1 if which == 'A' else -1],
                order='blocks', observable=which, obs_labels=labels,
                extra_column=False), {'diffcheck': False}))
    # more individuals than the colour palette has entries (10)
    for f in figs:
        out.append(('data', 'case_data', dict(
            figure=f, ids=list(range(101, 113)),
            layout=[['a'] if i % 3 else ['a', 'd'] for i in range(12)],
            order='interleaved', observable='A', extra_column=False),
            {'diffcheck': False}))
    out = [(c, f, {k_: v for k_, v in cfg.items() if v is not None}, o)
           for (c, f, cfg, o) in out]
    for f in ('PDPredictivePlot', 'PKPredictivePlot'):
        out.append(('scatter', 'case_scatter', dict(figure=f),
                    {'diffcheck': False}))
        sizes = [[2], [3], [4], [3, 2]] if q else [[2], [3], [4], [5],
                                                     [3, 2], [4, 3]]
        for n in sizes:
            for probs in ([0.9], [0.5], [0.3, 0.6, 0.9], [0.0, 1.0]):
                if sum(n) > 4 and len(probs) > 1 and q:
                    continue
                out.append(('bands', 'case_bands', dict(
                    figure=f, times=[1.0, 2.5][:len(n)], n_samples=n,
                    probs=probs), FACADE))
        for extra in (dict(repeated_index=True),
                      dict(repeated_index=True, nan_sample=True),
                      dict(nan_sample=True)):
            out.append(('bands', 'case_bands', dict(
                figure=f, times=[1.0, 2.5], n_samples=[3, 2],
                probs=[0.3, 0.0], distinct=True, **extra), FACADE))
            out.append(('bands', 'case_bands', dict(
                figure=f, times=[1.0], n_samples=[8],
                probs=[0.9, 0.5, 0.2], ranks=[(7 * j + 3) % 8
                                              for j in range(8)], **extra),
                dict(FACADE, max_decisions=40000)))
        # probabilities that differ only in the third decimal
        out.append(('bands', 'case_bands', dict(
            figure=f, times=[1.0], n_samples=[12],
            probs=[0.5, 0.33, 0.334], ranks=[(7 * j + 3) % 12
                                             for j in range(12)]),
            dict(FACADE, max_decisions=40000)))
        # time points that first appear in non-ascending order
        for times_, n in (([2.5, 1.0], [3, 2]), ([1.0, 4.0, 2.5], [2, 3, 2]),
                          ([4.0, 2.5, 1.0], [3, 1, 2])):
            out.append(('bands', 'case_bands', dict(
                figure=f, times=times_, n_samples=n, probs=[0.3, 0.0],
                distinct=True), FACADE))
        # more samples, pairwise distinct (strict orderings only), with
        # probabilities whose percentiles fall on and between the ranks
        big = [(5, [0.6, 0.2]), (5, [0.5, 0.9]),
               ]
        if not q:
            big += [(6, [0.5, 0.0]), (6, [1 / 3., 2 / 3.]), (7, [0.5, 0.7])]
        for n_ in ((8, 12, 20) if q else (8, 12, 20, 30)):
            perms = [list(range(n_)), list(range(n_))[::-1],
                     [(7 * j + 3) % n_ for j in range(n_)],
                     [(j * j + j) % n_ for j in range(n_)]]
            for k_, rk in enumerate(perms):
                out.append(('bands', 'case_bands', dict(
                    figure=f, times=[1.0], n_samples=[n_],
                    probs=[[0.9, 0.5, 0.2], [0.95, 0.6, 0.3],
                           [0.8, 0.75, 0.1], [1.0, 0.9, 0.0]][k_],
                    ranks=rk), dict(FACADE, max_decisions=40000)))
        # percentiles with a third decimal (0.025 / 0.975, 0.075 / 0.925,
        # 0.125 / 0.875) and sample sizes with a rank strictly between such a
        # percentile and its neighbours with two decimals (1/34, 33/34, 1/13,
        # 5/40, 35/40 ...)
        for n_ in ((13, 34) if q else (13, 34, 40, 27)):
            for rk in (list(range(n_)), [(7 * j + 3) % n_
                                         for j in range(n_)]):
                out.append(('bands', 'case_bands', dict(
                    figure=f, times=[1.0], n_samples=[n_],
                    probs=[0.95, 0.85, 0.75], ranks=rk),
                    dict(FACADE, max_decisions=200000)))
        # larger samples with ties (equal ranks = equal values): many equal
        # samples at one end, at both ends, in the middle
        tied = [[0, 1, 2, 3, 4, 4, 4, 4, 4], [0, 0, 0, 0, 0, 1, 2, 3, 4],
                [4, 0, 4, 1, 4, 2, 4, 3, 4, 4, 4, 4],
                [0, 0, 0, 0, 1, 2, 3, 4, 5, 5, 5, 5],
                [0, 1, 2, 2, 2, 2, 2, 2, 3, 4],
                [5, 5, 5, 0, 0, 0, 1, 2, 3, 4, 5, 5, 5, 5, 5, 5]]
        for k_, rk in enumerate(tied if not q else tied[:4]):
            out.append(('bands', 'case_bands', dict(
                figure=f, times=[1.0], n_samples=[len(rk)],
                probs=[[0.5, 0.3, 0.9], [0.5, 0.2, 0.8]][k_ % 2], ranks=rk),
                dict(FACADE, max_decisions=200000)))
        # many samples (what predictive models deliver): with 200 samples a
        # percentile that is off by half a percent moves a limit by a rank
        for n_ in ((200,) if q else (200, 150, 320)):
            for rk in (list(range(n_)), [(7 * j + 3) % n_
                                         for j in range(n_)]):
                out.append(('bands', 'case_bands', dict(
                    figure=f, times=[1.0], n_samples=[n_],
                    probs=[0.95, 0.99, 0.85], ranks=rk),
                    dict(FACADE, max_decisions=2000000)))
        for n_, probs in big:
            out.append(('bands', 'case_bands', dict(
                figure=f, times=[1.0], n_samples=[n_], probs=probs,
                distinct=True), dict(FACADE, max_paths=6000,
                                     max_decisions=20000)))
    return out


BOUNDS = dict(
    quick='4 figure classes; 12 individuals once, 3 individuals with every third pair of 8 row '
          'layouts (measurements of two observables, missing values, dose '
          'rows, dose rows that also carry a measurement), block and interleaved row order, string / integer IDs, '
          'default and custom column keys, an extra column; prediction bands '
          'for 2-4 samples per time point (1-3 time points, also first '
          'appearing in non-ascending order) and 4 sets of '
          'bulk probabilities incl. 0 and 1: every weak ordering of the '
          'samples is a path; 5 pairwise distinct samples (every strict '
          'ordering); 8, 12 and 20 samples in 4 fixed strict orderings '
          '(sorted, reversed, two scrambled) with 3 probabilities each; 13 '
          'and 34 samples in 2 orderings with the probabilities 0.95, 0.85, '
          '0.75 (percentiles with a third decimal); 9-12 samples with 4-7 '
          'equal ones at one or both ends; 200 samples in 2 '
          'orderings with 0.95, 0.99, 0.85; '
          'frames with repeated index labels and / or a sample without value',
    thorough='every pair of layouts; up to 5 samples with ties, 6-7 distinct '
             'in every strict ordering, 30 samples in 4 orderings, 150 / 200 / '
             '320 samples in 2 orderings',
    outside='residual plots and the other figure classes of chi.plots; '
            'plotly rendering beyond the trace arrays; more samples per time '
            'point (the number of weak orderings grows factorially)')
TRUSTED = ['pandas on object columns (masking, unique, rank, max/min use '
           'the Python comparison of the cells, which the explorer decides)',
           'plotly keeps object arrays as given', 'z3']
