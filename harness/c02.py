"""C02 - hierarchical log-likelihood = individual likelihoods + population
density, read through the published names and IDs."""
import itertools

import numpy as np

import chi

from . import hier
from . import popspec as ps
from .stubs import SymPrior

EXPLANATION = (
    'chi.HierarchicalLogLikelihood / HierarchicalLogPosterior are built from '
    'real chi.LogLikelihood objects (uninterpreted mechanistic model, '
    'symbolic data) and every composition of population sub-models within '
    'the bound; the flat vector is symbolic.  A specification interpreter '
    'driven only by the published names and IDs (get_parameter_names, '
    'get_id) rebuilds sum_i LL_i(psi_i) + population log-density from the '
    'documented semantics of pooled / heterogeneous / non-centred / '
    'covariate dimensions; z3 decides equality with the value chi computes.')


def case_hier(B, cfg):
    try:
        H = hier.build(B, cfg)
    except Exception as e:
        B.fact('no-exception:construction', False, repr(e))
        return
    hl = H['hl']
    n_ids = H['n_ids']
    x, names, ids = hier.vector(B, hl)
    xarr = ps.arr
    if cfg.get('int_vector'):
        # the whole vector handed over as an array of an integer dtype (a
        # list of Python ints, np.arange ...): an integer vector is a vector
        xarr = ps.int_arr
        if not B.symbolic:
            x = [float(max(1, int(round(3 * abs(v))))) for v in x]
    B.fact('len(names)=n_parameters', len(names) == len(x),
           '%d vs %d' % (len(names), len(x)))
    B.fact('len(ids)=n_parameters', len(ids) == len(x),
           '%d vs %d' % (len(ids), len(x)))
    if len(names) != len(x) or len(ids) != len(x):
        return
    uniq = hl.get_id(unique=True)
    val = {}
    dup = False
    for k in range(len(x)):
        key = (ids[k], names[k])
        if key in val:
            dup = True
        val[key] = x[k]
    B.fact('(id, name) pairs distinct', not dup, repr(list(zip(ids, names))))
    n_top = hl.n_parameters(exclude_bottom_level=True)
    n_bottom = len(x) - n_top
    B.fact('ids mark exactly the bottom entries',
           all(i is not None for i in ids[:n_bottom]) and
           all(i is None for i in ids[n_bottom:]), repr(ids))
    B.fact('top names = population model names',
           names[n_bottom:] == H['pop'].get_parameter_names(),
           repr(names[n_bottom:]))
    top = hl.get_parameter_names(exclude_bottom_level=True)
    B.fact('names without the bottom level = the top-level names (as many '
           'as n_parameters(exclude_bottom_level=True))',
           list(top) == list(names[n_bottom:]) and len(top) == n_top,
           '%r vs %d' % (top, n_top))
    top_ids = hl.get_parameter_names(exclude_bottom_level=True,
                                     include_ids=True)
    B.fact('... also with IDs', len(top_ids) == n_top, repr(top_ids))
    try:
        pop_part, psi = hier.spec(B, H, val, uniq)
    except hier.SpecError as e:
        B.fact('names describe the positions', False, str(e))
        return
    # error-model scale of every individual must be in its support
    for i in range(n_ids):
        B.assume(psi[i][-1] > 0)
    ref = pop_part
    for i in range(n_ids):
        ref = ref + H['lls'][i](ps.arr(B, psi[i]))
    try:
        value = hl(xarr(B, x))
    except Exception as e:
        B.fact('no-exception:__call__', False, repr(e))
        return
    B.eq('value=sum LL_i(psi_i)+population density', value, ref)
    if cfg.get('posterior', True):
        prior = SymPrior(B, n_top)
        post = chi.HierarchicalLogPosterior(hl, prior)
        pv = post(xarr(B, x))
        B.eq('posterior=prior(top)+likelihood', pv,
             prior(x[n_bottom:]) + ref)
        B.fact('posterior names', post.get_parameter_names(include_ids=True)
               == hl.get_parameter_names(include_ids=True))


def compositions(max_len, total_dims, covs=(0,)):
    """All sequences of units with the given total dimension."""
    out = []
    kinds = ps.KINDS

    def rec(prefix, remaining):
        if remaining == 0:
            out.append(list(prefix))
            return
        if len(prefix) >= max_len:
            return
        for k in kinds:
            for nd in (1, 2):
                if nd > remaining:
                    continue
                for c in covs:
                    if c and k in ('hetero',):
                        continue
                    rec(prefix + [hier.unit(k, nd, c)], remaining - nd)
    for td in total_dims:
        rec([], td)
    return out


def extra_quick():
    """compositions the <= 2-unit / total-dimension-2 enumeration cannot
    reach: multi-dimensional special sub-models in front of regular ones and
    covariate models with 2 covariates on >= 2 selected parameters"""
    U = hier.unit
    return [[U('pooled', 2), U('gaussian')], [U('hetero', 2),
                                              U('lognormal_nc')],
            [U('gaussian'), U('pooled', 2)], [U('pooled', 2),
                                              U('gaussian_nc')],
            [U('gaussian', 1, 2), U('pooled')],
            [U('lognormal_nc', 1, 2), U('gaussian')],
            [U('gaussian', 2, 2)], [U('pooled', 1, 2), U('truncgauss')],
            # a multi-dimensional regular sub-model in front of further ones
            # covariates acting on a selection of a two-dimensional model
            [U('gaussian', 2, 1, sel=[[0, 1], [1, 0]])],
            [U('lognormal_nc', 2, 2, sel=[[1, 1], [0, 1]]), U('pooled')],
            [U('gaussian', 2), U('lognormal')],
            [U('lognormal_nc', 2), U('pooled'), U('gaussian')],
            # several covariate-dependent sub-models, each with its own
            # covariate columns (the later ones non-centred / pooled)
            [U('gaussian', 1, 1), U('lognormal_nc', 1, 1)],
            [U('lognormal', 1, 1), U('gaussian_nc', 1, 2)],
            [U('gaussian_nc', 1, 2), U('pooled', 1, 1)],
            [U('pooled', 1, 1), U('gaussian_nc', 1, 1), U('lognormal_nc', 1, 1)]]


def jobs(tier):
    out = []
    if tier == 'quick':
        comps = compositions(2, [2])
        cov_comps = [c for c in compositions(2, [2], covs=(0, 1))
                     if any(u['cov'] for u in c)]
        cov_comps = cov_comps[::3]
        id_list = [2]
        # three one-dimensional sub-models (interleaved special dimensions)
        sub = ['gaussian', 'lognormal_nc', 'pooled', 'hetero']
        comps += [[hier.unit(a), hier.unit(b), hier.unit(c)]
                  for a in sub for b in sub for c in sub]
    else:
        comps = compositions(3, [2, 3])
        cov_comps = [c for c in compositions(2, [2, 3], covs=(0, 1, 2))
                     if any(u['cov'] for u in c)]
        id_list = [1, 2, 3]
    k = 0
    for c in comps:
        for n_ids in id_list:
            out.append(('hier', 'case_hier', dict(
                units=c, n_ids=n_ids, posterior=(k % 2 == 0)), {}))
            if len(c) == 1:
                out.append(('hier', 'case_hier', dict(
                    units=c, n_ids=n_ids, bare=True), {}))
            k += 1
    for c in cov_comps:
        for n_ids in id_list[-2:]:
            out.append(('hier', 'case_hier', dict(units=c, n_ids=n_ids), {}))
    for c in extra_quick():
        out.append(('hier', 'case_hier', dict(units=c, n_ids=2), {}))
    # the parameter vector as an array of an integer dtype
    U = hier.unit
    for c in ([U('lognormal_nc'), U('gaussian')],
              [U('gaussian_nc'), U('lognormal_nc')],
              [U('gaussian_nc'), U('pooled')], [U('lognormal_nc', 2)],
              [U('hetero'), U('gaussian_nc')],
              [U('lognormal_nc'), U('gaussian'), U('lognormal_nc')],
              [U('gaussian_nc', 1, 1), U('lognormal')]):
        out.append(('hier', 'case_hier', dict(
            units=c, n_ids=2, int_vector=True, posterior=False),
            {'diffcheck': False}))
        if len(c) == 1:
            out.append(('hier', 'case_hier', dict(
                units=c, n_ids=2, int_vector=True, bare=True,
                posterior=False), {'diffcheck': False}))
    # every population parameter fixed (nothing left at the top level)
    for c in ([U('gaussian_nc'), U('lognormal_nc')], [U('gaussian'),
                                                      U('lognormal')],
              [U('gaussian_nc', 2)], [U('lognormal', 1, 1), U('gaussian_nc')]):
        out.append(('hier', 'case_hier', dict(
            units=c, n_ids=2, fix_all=True, posterior=False), {}))
    # fixed population parameters
    fix_comps = comps[::5] if tier == 'quick' else comps[::2]
    for j, c in enumerate(fix_comps):
        out.append(('hier', 'case_hier', dict(
            units=c, n_ids=id_list[-1], fix=j), {}))
    return out


BOUNDS = dict(
    quick='all sequences of <= 2 population sub-models (7 kinds, 1- or '
          '2-dimensional) of total dimension 2, all 64 triples of 1-dim '
          'sub-models from {gaussian, lognormal_nc, pooled, hetero}, 2 individuals with different '
          'sampling times; a third of the covariate variants (1 covariate); '
          'every 5th composition with one fixed population parameter; bare '
          '(non-composed) models; 8 compositions with the vector handed over '
          'as an integer array',
    thorough='sequences of <= 3 sub-models of total dimension 2 and 3, '
             '1..3 individuals, covariate variants with 1-2 covariates, every '
             '2nd composition with a fixed parameter',
    outside='more individuals / dimensions; error models other than Gaussian '
            'inside the individual likelihoods (C01/C04 cover those)')
TRUSTED = ['z3', 'object-dtype NumPy', 'harness/popspec.py densities',
           'chi.LogLikelihood as reference for LL_i (decided by C01)',
           'naming conventions of the population models as documented']
