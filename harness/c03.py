"""C03 - analytic gradients equal the derivative of the evaluated log-pdf."""
import itertools
import math

import numpy as np

import chi

from . import c01, c02, hier, refs
from . import popspec as ps
from .stubs import SymPrior

EXPLANATION = (
    'For chi.LogLikelihood, LogPosterior, HierarchicalLogLikelihood and '
    'HierarchicalLogPosterior (uninterpreted mechanistic model and prior with '
    'declared partial derivatives, symbolic data and parameters) the term '
    'returned by __call__ is differentiated symbolically with respect to '
    'every entry of the flat vector and z3 decides equality with the array '
    'returned by evaluateS1; the S1 score equals the plain score in both '
    'call orders; outside the support both evaluations are non-finite.')


def _nonfinite(v):
    return isinstance(v, float) and (math.isinf(v) or math.isnan(v))


def _check_grad(B, obj, x, tag):
    """value -> S1 -> value on the same object."""
    xa = ps.arr(B, x)
    v1 = obj(xa)
    try:
        score, sens = obj.evaluateS1(xa)
    except Exception as e:
        B.fact('no-exception:%s.evaluateS1' % tag, False, repr(e))
        return
    v2 = obj(xa)
    B.eq('%s: S1 score = value' % tag, score, v1)
    B.eq('%s: value after S1 = value before' % tag, v2, v1)
    B.fact('%s: gradient length' % tag, np.shape(sens) == (len(x),),
           '%r vs %d' % (np.shape(sens), len(x)))
    if np.shape(sens) != (len(x),):
        return
    _, g = B.grad(lambda xs: obj(ps.arr(B, xs)), x)
    for k in range(len(x)):
        B.eq('%s: grad[%d] = d value / d x%d' % (tag, k, k), sens[k], g[k])


def case_ll(B, cfg):
    ems, times = cfg['ems'], cfg['times']
    n_mech = cfg.get('n_mech', 2)
    mm, models, obs, ll = c01.build(B, cfg)
    fix = cfg.get('fix')
    psi = B.vars('psi', n_mech)
    pars = [[B.var('sig%d_%d' % (o, i)) for i in range(refs.em_nparams(e))]
            for o, e in enumerate(ems)]
    theta = psi + [p for ps_ in pars for p in ps_]
    for o, e in enumerate(ems):
        yb = [mm.sym_output('out%d' % o, t, psi) for t in times[o]]
        refs.em_assume_support(B, e, pars[o], yb, obs[o])
    if fix:
        names = ll.get_parameter_names()
        fixed = {names[k]: theta[k] for k in fix}
        ll.fix_parameters(fixed)
        theta = [t for k, t in enumerate(theta) if k not in fix]
        B.fact('n_parameters after fixing', ll.n_parameters() == len(theta))
    if cfg.get('history'):
        # evaluations with sensitivities and fix / release calls in a row
        # (no plain evaluation in between): the state the sensitivity switch
        # is left in must not matter
        full = list(theta)
        names = ll.get_parameter_names()
        fixed_idx = set()
        for step in cfg['history']:
            if step[0] == 's1':
                cur = [t for k, t in enumerate(full) if k not in fixed_idx]
                try:
                    ll.evaluateS1(ps.arr(B, cur))
                except Exception as e:
                    B.fact('no-exception:evaluateS1 during the history',
                           False, repr(e))
                    return
            elif step[0] == 'fix':
                ll.fix_parameters({names[k]: full[k] for k in step[1]})
                fixed_idx |= set(step[1])
            elif step[0] == 'release':
                ll.fix_parameters({names[k]: None for k in step[1]})
                fixed_idx -= set(step[1])
        theta = [t for k, t in enumerate(full) if k not in fixed_idx]
        B.fact('n_parameters after the history',
               ll.n_parameters() == len(theta))
    # S1 first on a fresh object, then value (the other call order)
    xa = ps.arr(B, theta)
    try:
        s_first, g_first = ll.evaluateS1(xa)
    except Exception as e:
        B.fact('no-exception:evaluateS1 first', False, repr(e))
        return
    if cfg.get('history'):
        # the gradient returned by the first evaluation after the history
        g_first = [x for x in g_first]
        _, g = B.grad(lambda xs: ll(ps.arr(B, xs)), theta)
        B.fact('first gradient after the history: length',
               len(g_first) == len(theta), '%d' % len(g_first))
        if len(g_first) == len(theta):
            for k in range(len(theta)):
                B.eq('first gradient after the history [%d] = d value / d '
                     'x%d' % (k, k), g_first[k], g[k])
    B.eq('likelihood: value after S1-first = S1 score', ll(xa), s_first)
    _check_grad(B, ll, theta, 'likelihood')
    if cfg.get('posterior', True):
        prior = SymPrior(B, len(theta))
        _check_grad(B, chi.LogPosterior(ll, prior), theta, 'posterior')


def case_hier(B, cfg):
    H = hier.build(B, cfg)
    hl = H['hl']
    n_ids = H['n_ids']
    x, names, ids = hier.vector(B, hl)
    uniq = hl.get_id(unique=True)
    val = {(ids[k], names[k]): x[k] for k in range(len(x))}
    pop_part, psi = hier.spec(B, H, val, uniq)   # support assumptions
    for i in range(n_ids):
        B.assume(psi[i][-1] > 0)
    if cfg.get('posterior', False):
        n_top = hl.n_parameters(exclude_bottom_level=True)
        prior = SymPrior(B, n_top)
        _check_grad(B, chi.HierarchicalLogPosterior(hl, prior), x,
                    'hierarchical posterior')
    else:
        _check_grad(B, hl, x, 'hierarchical likelihood')


def case_pk(B, cfg):
    """dosed PKPD model over the myokit stub: the gradient goes through the
    sensitivities the (stub) solver returns for the requested parameters"""
    import chi.library
    m = chi.library.ModelLibrary().one_compartment_pk_model()
    m.set_administration('central', direct=cfg['direct'])
    m.set_dosing_regimen(B.var('dose'), start=B.var('start'),
                         period=B.var('period'), num=2)
    if cfg.get('outputs'):
        m.set_outputs(cfg['outputs'])
    n_out = m.n_outputs()
    ems = [refs.error_model(e) for e in cfg['ems'][:n_out]]
    times = [[0.5, 2.0], [1.0]][:n_out]
    obs = [[B.var('y%d_%d' % (o, j)) for j in range(len(times[o]))]
           for o in range(n_out)]
    ll = chi.LogLikelihood(m, ems, obs, times)
    n = ll.n_parameters()
    x = [B.var('x%d' % k) for k in range(n)]
    for v in x:
        B.assume(v > 0)
    for o in range(n_out):
        for y in obs[o]:
            B.assume(y > 0)
    # model outputs positive (needed by the multiplicative / log-normal
    # error models): assumed on the solution symbols themselves
    out = ll._mechanistic_model.simulate(ps.arr(B, x[:n - sum(
        e.n_parameters() for e in ems)]), sorted({t for ts in times
                                                  for t in ts}))
    for v in np.ravel(out):
        B.assume(v > 0)
    if cfg.get('fix'):
        names = ll.get_parameter_names()
        ll.fix_parameters({names[k]: x[k] for k in cfg['fix']})
        x = [v for k, v in enumerate(x) if k not in cfg['fix']]
    _check_grad(B, ll, x, 'dosed likelihood')
    if cfg.get('posterior'):
        _check_grad(B, chi.LogPosterior(ll, SymPrior(B, len(x))), x,
                    'dosed posterior')


def case_guard(B, cfg):
    """One support condition violated: both evaluations are non-finite."""
    ems, times = cfg['ems'], cfg['times']
    n_mech = 1
    mm, models, obs, ll = c01.build(B, dict(cfg, n_mech=n_mech))
    psi = B.vars('psi', n_mech)
    pars = [[B.var('sig%d_%d' % (o, i)) for i in range(refs.em_nparams(e))]
            for o, e in enumerate(ems)]
    theta = psi + [p for ps_ in pars for p in ps_]
    flat = [(o, i) for o in range(len(ems)) for i in range(len(pars[o]))]
    bad = flat[cfg['which'] % len(flat)]
    for o, e in enumerate(ems):
        yb = [mm.sym_output('out%d' % o, t, psi) for t in times[o]]
        for yv in yb:
            B.assume(yv > 0)
        for yv in obs[o]:
            B.assume(yv > 0)
        for i, p in enumerate(pars[o]):
            if (o, i) == bad:
                B.assume(p <= 0)
            else:
                B.assume(p > 0)
    xa = ps.arr(B, theta)
    v = ll(xa)
    score, sens = ll.evaluateS1(xa)
    B.fact('value non-finite outside the support', _nonfinite(v), repr(v))
    B.fact('S1 score non-finite outside the support', _nonfinite(score),
           repr(score))
    B.fact('gradient length', np.shape(sens) == (len(theta),))


def histories():
    """gradient evaluations and fix / release calls in a row"""
    H = [[('s1',), ('fix', [0])], [('s1',), ('fix', [1])],
         [('s1',), ('fix', [2])], [('s1',), ('fix', [0, 2])],
         [('fix', [0]), ('s1',), ('release', [0]), ('fix', [1])],
         [('fix', [1]), ('s1',), ('release', [1])],
         [('fix', [0, 1]), ('s1',), ('release', [0])],
         [('s1',), ('fix', [0]), ('s1',), ('fix', [1])],
         [('fix', [2]), ('s1',), ('fix', [0]), ('release', [2])]]
    out = []
    for k, h in enumerate(H):
        out.append(('ll', 'case_ll', dict(
            ems=[refs.ERROR_MODELS[k % 4]], times=[[1.0, 2.5]], history=h,
            posterior=False), {}))
        out.append(('ll', 'case_ll', dict(
            ems=[refs.ERROR_MODELS[(k + 1) % 4], 'Gaussian'],
            times=[[1.0], [0.0, 1.0]], history=h, posterior=False), {}))
    return out


def jobs(tier):
    out = []
    pairs = list(itertools.product(refs.ERROR_MODELS, repeat=2))
    if tier == 'quick':
        g = c01.grids(3, 2)
        for i, t in enumerate(g):
            for j, e in enumerate(refs.ERROR_MODELS):
                out.append(('ll', 'case_ll', dict(
                    ems=[e], times=[t], posterior=(i + j) % 2 == 0), {}))
        k = 0
        for t0 in g[::2]:
            for t1 in g[1::2]:
                out.append(('ll', 'case_ll', dict(
                    ems=list(pairs[k % 16]), times=[t0, t1],
                    posterior=(k % 3 == 0)), {}))
                k += 1
        # fixed-parameter subsets
        for e in refs.ERROR_MODELS:
            for fix in ([0], [2], [0, 2], [1, 2]):
                out.append(('ll', 'case_ll', dict(
                    ems=[e], times=[[1.0, 2.5]], fix=fix), {}))
            if refs.em_nparams(e) >= 2:
                # a later error parameter fixed while an earlier one is free
                for fix in ([3], [0, 3]):
                    out.append(('ll', 'case_ll', dict(
                        ems=[e], times=[[1.0, 2.5]], fix=fix), {}))
        for e in refs.ERROR_MODELS:
            if refs.em_nparams(e) >= 2:
                # ... also in the second of two outputs, and after a release
                n1 = refs.em_nparams(e)
                out.append(('ll', 'case_ll', dict(
                    ems=['Gaussian', e], times=[[1.0], [0.0, 2.0]],
                    fix=[2 + 1 + n1 - 1]), {}))
                out.append(('ll', 'case_ll', dict(
                    ems=[e, e], times=[[1.0], [0.0, 2.0]],
                    fix=[3, 2 + n1 + 1]), {}))
                out.append(('ll', 'case_ll', dict(
                    ems=[e], times=[[1.0, 2.5]], posterior=False,
                    history=[('fix', [2, 3]), ('s1',), ('release', [2]),
                             ('s1',)]), {}))
        out += histories()
        comps = c02.compositions(2, [2])
        sub = ['gaussian', 'lognormal_nc', 'pooled', 'hetero']
        comps += [[hier.unit(a), hier.unit(b), hier.unit(c)]
                  for a in sub for b in sub for c in sub][::3]
        for k, c in enumerate(comps):
            out.append(('hier', 'case_hier', dict(
                units=c, n_ids=2, posterior=(k % 2 == 1)), {}))
        cov = [c for c in c02.compositions(2, [2], covs=(0, 1))
               if any(u['cov'] for u in c)][::5]
        for c in cov:
            out.append(('hier', 'case_hier', dict(units=c, n_ids=2), {}))
        for c in c02.extra_quick()[-4:]:
            # several covariate-dependent sub-models with their own columns
            out.append(('hier', 'case_hier', dict(units=c, n_ids=2), {}))
        for j, c in enumerate(comps[::7]):
            out.append(('hier', 'case_hier', dict(
                units=c, n_ids=2, fix=j), {}))
    else:
        g = c01.grids(4, 3)
        for i, t in enumerate(g):
            for j, e in enumerate(refs.ERROR_MODELS):
                out.append(('ll', 'case_ll', dict(
                    ems=[e], times=[t], posterior=True), {}))
        k = 0
        g2 = c01.grids(3, 2)
        for t0 in g2:
            for t1 in g2:
                out.append(('ll', 'case_ll', dict(
                    ems=list(pairs[k % 16]), times=[t0, t1],
                    posterior=(k % 3 == 0)), {}))
                k += 1
        out += histories()
        for e in pairs:
            for fix in ([0], [2], [0, 2], [1, 3], [2, 3]):
                out.append(('ll', 'case_ll', dict(
                    ems=list(e), times=[[1.0, 2.5], [0.0, 1.0]], fix=fix),
                    {}))
        comps = c02.compositions(3, [2, 3])
        for k, c in enumerate(comps):
            for n_ids in (1, 2, 3):
                if (k + n_ids) % 3:
                    continue
                out.append(('hier', 'case_hier', dict(
                    units=c, n_ids=n_ids, posterior=(k % 2 == 1)), {}))
        cov = [c for c in c02.compositions(2, [2, 3], covs=(0, 1, 2))
               if any(u['cov'] for u in c)][::3]
        for c in cov:
            out.append(('hier', 'case_hier', dict(units=c, n_ids=2), {}))
        for j, c in enumerate(comps[::5]):
            out.append(('hier', 'case_hier', dict(
                units=c, n_ids=2, fix=j), {}))
    for k, c in enumerate(c02.extra_quick()):
        out.append(('hier', 'case_hier', dict(
            units=c, n_ids=2, posterior=(k % 2 == 0)), {}))
    # outputs without measurements, 3 outputs with unequal parameter counts
    for k, (_, _, cfg, _) in enumerate(c01.empty_layouts()):
        out.append(('ll', 'case_ll', dict(cfg, posterior=(k % 3 == 0)), {}))
        if k % 4 == 0:
            out.append(('ll', 'case_ll', dict(cfg, fix=[2], posterior=False),
                        {}))
    for e in (('Gaussian', 'ConstantAndMultiplicative', 'LogNormal'),
              ('ConstantAndMultiplicative', 'Gaussian', 'Multiplicative'),
              ('LogNormal', 'ConstantAndMultiplicative',
               'ConstantAndMultiplicative')):
        out.append(('ll', 'case_ll', dict(
            ems=list(e), times=[[0.0, 1.0], [1.0], [0.0, 2.5]],
            posterior=False), {}))
    PK = {'facade': {'myokit': True}, 'diffcheck': False}
    for direct in (True, False):
        for ems in (['Gaussian'], ['LogNormal'], ['ConstantAndMultiplicative'],
                    ['Multiplicative']):
            out.append(('pk', 'case_pk', dict(direct=direct, ems=ems,
                                              posterior=True), PK))
        out.append(('pk', 'case_pk', dict(
            direct=direct, ems=['Gaussian', 'LogNormal'],
            outputs=['central.drug_concentration', 'central.drug_amount']),
            PK))
        for fix in ([0], [1], [0, 2]):
            out.append(('pk', 'case_pk', dict(direct=direct, ems=['Gaussian'],
                                              fix=fix), PK))
    # covariates x fixed population parameters
    covfix = [c for c in c02.compositions(2, [2], covs=(0, 1))
              if any(u['cov'] for u in c)]
    for j, c in enumerate(covfix[::4] if tier == 'quick' else covfix):
        out.append(('hier', 'case_hier', dict(units=c, n_ids=2, fix=j), {}))
    for e in pairs[::3] if tier == 'quick' else pairs:
        for which in range(3):
            out.append(('guard', 'case_guard', dict(
                ems=list(e), times=[[1.0], [1.0, 2.5]], which=which), {}))
    return out


BOUNDS = dict(
    quick='individual likelihoods/posteriors: 1 output x 9 time multisets x 4 '
          'error models, 2 outputs on a quarter of the grid pairs, 16 '
          'fixed-parameter subsets plus 5 with a later error parameter '
          'fixed and an earlier one free; hierarchical: all compositions of <= 2 '
          'sub-models with total dimension 2, a third of the 3-unit '
          'compositions, covariate and fixed-parameter samples, 2 individuals',
    thorough='time multisets up to length 3 over 4 values, all 2-output grid '
             'pairs of length <= 2, all 16 error-model pairs x 5 '
             'fixed-parameter subsets; hierarchical compositions of <= 3 '
             'sub-models with dimension 2-3 and 1-3 individuals',
    outside='as C01 / C02; the mechanistic sensitivities themselves are the '
            'declared partials of the uninterpreted solution')
TRUSTED = ['z3', 'object-dtype NumPy', 'symbolic differentiator '
           '(chisym/terms.py diff), cross-checked against central differences '
           'of the float code on every configuration']
