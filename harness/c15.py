"""C15 - predictive models sample the stated generative process, correctly
labelled."""
import itertools

import numpy as np
import pandas as pd
import xarray as xr

import chi

from chisym import terms as T
from chisym.sym import Sym

from . import c06, hier, refs
from . import popspec as ps
from .stubs import SymMechModel, SymPrior

EXPLANATION = (
    'With the RNG stub and the uninterpreted mechanistic model every value in '
    'the tables returned by the predictive models is a term.  z3 / term '
    'inspection decide, row by row: the value labelled (ID s, time t, '
    'observable o) is the error model\'s generative map around Y_{o,t}(psi_s) '
    '(affine / log-affine in a noise variable with the documented mean and '
    'variance); times ascend for unsorted input; psi_s -- read off the '
    'arguments of Y -- is the given parameter vector (PredictiveModel), a '
    'draw with the population model\'s law after its own transform, for '
    'sample sizes equal to and different from the number of individuals the '
    'population model was last configured with (PopulationPredictiveModel), '
    'one joint (chain, draw) row of the selected individual with '
    'population-level columns from the same row (PosteriorPredictiveModel, '
    'forked over the rows), one prior draw (PriorPredictiveModel); averaged '
    'models label samples 1..n without collision and each block comes from '
    'one model; dose rows equal get_dosing_regimen.')


def _mech(B, n_params=2, n_out=2, tag='Y'):
    return SymMechModel(B, n_params=n_params, n_outputs=n_out, tag=tag)


def _yargs(term, tag='Y'):
    """all applications of the solution symbol inside a term:
    {(output, time): args}"""
    out = {}
    for u in T.subterms([Sym.lift(term).t]):
        if u.op == 'f' and isinstance(u.args[0], str) and \
                u.args[0].startswith(tag + '['):
            name = u.args[0]
            o, t = name[len(tag) + 1:-1].split('|')
            out[(o, float(t))] = tuple(u.args[1:])
    return out


def _row_law(B, label, value, em, sigma_terms, ybar_key, tag='Y'):
    """value = g_em(Y; sigma, eps): decided through mean / variance"""
    value = Sym.lift(value)
    ya = _yargs(value, tag)
    B.fact('%s: value built from the prediction for its own output and time'
           % label, list(ya) == [ybar_key], '%r vs %r' % (list(ya), ybar_key))
    names = [n for n in c06.eps_of(value) if n.startswith('eps[')]
    # the error-model noise: variables the value is affine in, at fixed psi
    return ya.get(ybar_key), names


def case_predictive(B, cfg):
    if not B.symbolic:
        return   # term inspection: nothing to replay on floats
    ems = cfg['ems']
    n_out = len(ems)
    mm = _mech(B, 2, n_out)
    models = [refs.error_model(e) for e in ems]
    pm = chi.PredictiveModel(mm, models)
    names = pm.get_parameter_names()
    psi = B.vars('psi', 2)
    pars = [[B.var('sig%d_%d' % (o, i)) for i in range(refs.em_nparams(e))]
            for o, e in enumerate(ems)]
    theta = psi + [p for p_ in pars for p in p_]
    B.fact('n_parameters', pm.n_parameters() == len(theta) == len(names))
    times = cfg['times']
    ns = cfg['n_samples']
    for o, e in enumerate(ems):
        yb = [mm.sym_output('out%d' % o, t, psi) for t in times]
        refs.em_assume_support(B, e, pars[o], yb)
    rng = B.new_rng()
    df = pm.sample(ps.arr(B, theta), times, n_samples=ns,
                   seed=rng.default_rng(3) if cfg.get('generator') else 3)
    st = sorted(times)
    rows = [(r['ID'], r['Time'], r['Observable'], r['Value'])
            for _, r in df.iterrows()]
    B.fact('number of rows', len(rows) == n_out * len(times) * ns,
           '%d' % len(rows))
    want = [(s + 1, t, mm.outputs()[o]) for o in range(n_out) for t in st
            for s in range(ns)]
    got = [(int(r[0]), float(r[1]), r[2]) for r in rows]
    B.fact('labels: every (ID, time, observable) once, times ascending',
           got == want, '%r' % got[:6])
    if got != want:
        return
    for (sid, t, oname), r in zip(want, rows):
        o = mm.outputs().index(oname)
        e = ems[o]
        label = 'row (ID %d, t=%s, %s)' % (sid, t, oname)
        v = Sym.lift(r[3])
        ya = _yargs(v)
        key = ('out%d' % o, float(t))
        B.fact('%s: uses the prediction of its own output and time' % label,
               set(ya) == {key}, repr(sorted(ya)))
        if set(ya) != {key}:
            continue
        for a, b in zip(ya[key], psi):
            B.eq('%s: mechanistic parameters' % label, Sym(a), b)
        ybar = mm.sym_output('out%d' % o, t, psi)
        y = B.var('yobs')
        if e == 'LogNormal':
            B.assume(y > 0)
            c0, V, nm = c06.affine_law(B, B.log(v), label)
            ref = c06.gaussian_logpdf(B, B.log(y), c0, V) - B.log(y)
        else:
            c0, V, nm = c06.affine_law(B, v, label)
            ref = c06.gaussian_logpdf(B, y, c0, V)
        B.fact('%s: has its own noise variable' % label, len(nm) >= 1)
        L = models[o].compute_pointwise_ll(pars[o], [ybar], [y])[0]
        if e == 'ConstantAndMultiplicative':
            # sampler variance is a known finding of C06; here: mean only
            B.eq('%s: mean = prediction' % label, c0, ybar)
        else:
            B.eq('%s: law = error model around the prediction' % label, L,
                 ref, tol=2e-2)


class DosedSymMech(SymMechModel):
    """the uninterpreted model with the dosing interface of chi.PKPDModel: a
    protocol of events (level, start, duration, period, multiplier)"""

    def __init__(self, B, n_params=2, n_outputs=1, events=()):
        super(DosedSymMech, self).__init__(B, n_params, n_outputs)
        from chisym.facade_myokit import Protocol
        self._reg = None
        if events:
            self._reg = Protocol()
            for e in events:
                self._reg.schedule(*e)

    def dosing_regimen(self):
        return self._reg


def expected_doses(events, final_time, indefinite_once=False):
    """documented table: one row per administration not later than the last
    requested time; an indefinite regimen up to that time (without a final
    time: its first administration only)"""
    rows = []
    for (level, start, duration, period, mult) in events:
        if start > final_time:
            continue
        if period == 0:
            rows.append((start, duration, level * duration))
            continue
        k = 0
        while start + k * period <= final_time and (mult == 0 or k < mult):
            rows.append((start + k * period, duration, level * duration))
            k += 1
            if mult == 0 and indefinite_once:
                break
    return rows


def case_dose_rows(B, cfg):
    """(f) tables with include_regimen=True: every sample ID is labelled with
    every dose event (time, duration, amount) -- per sample for the
    predictive and population predictive model"""
    events = []
    for k, (start, period, mult) in enumerate(cfg['events']):
        lv, du = B.var('rate%d' % k), B.var('dur%d' % k)
        B.assume(lv > 0)
        B.assume(du > 0)
        events.append((lv, start, du, period, mult))
    times = cfg['times']
    ns = cfg['n_samples']
    kind = cfg['kind']
    rng = B.new_rng()
    if kind == 'predictive':
        mm = DosedSymMech(B, 2, cfg.get('n_out', 1), events)
        pm = chi.PredictiveModel(
            mm, [chi.GaussianErrorModel() for _ in range(mm.n_outputs())])
        th = B.vars('psi', 2) + B.vars('sig', mm.n_outputs())
        for x in th[2:]:
            B.assume(x > 0)
        sampler = lambda: pm.sample(
            ps.arr(B, th), times, n_samples=ns, seed=3, include_regimen=True)
        n_meas = mm.n_outputs() * len(times) * (ns or 1)
    elif kind in ('posterior', 'prior', 'pam'):
        # (documented: the regimen is appended once for all samples)
        mm = DosedSymMech(B, 2, 1, events)
        pm = chi.PredictiveModel(mm, chi.GaussianErrorModel())
        names_ = pm.get_parameter_names()
        if kind == 'prior':
            prior = SymPrior(B, 3)
            orig_ = prior.sample

            def sample_(n=1):
                r_ = orig_(n)
                B.assume(r_[0][2] > 0)
                return r_
            prior.sample = sample_
            w = chi.PriorPredictiveModel(pm, prior)
        else:
            ds, cells = _posterior_dataset(B, names_, None, 1, 1)
            for key, v in cells.items():
                if key[0] == names_[-1]:
                    B.assume(v > 0)
            w = chi.PosteriorPredictiveModel(pm, ds)
            if kind == 'pam':
                w = chi.PAMPredictiveModel([w, w], [1.0, 1.0])
        sampler = lambda: w.sample(times, n_samples=ns, seed=3,
                                   include_regimen=True)
        n_meas = len(times) * (ns or 1)
    else:
        units = cfg['units']
        D = hier.total_dim(units)
        mm = DosedSymMech(B, D - 1, 1, events)
        pm = chi.PredictiveModel(mm, chi.GaussianErrorModel())
        pop = hier.make_population(units, 2)
        ppm = chi.PopulationPredictiveModel(pm, pop)
        theta, per_dim = c06._units_theta(B, units, 2)
        for q, u in enumerate(units):
            if not ps.is_delta(u['kind']):
                for j in range(u['n_dim']):
                    B.assume(per_dim[q][0][1][j] > 0)
        sampler = lambda: ppm.sample(
            ps.arr(B, theta), times, n_samples=ns, seed=5,
            include_regimen=True)
        n_meas = len(times) * (ns or 1)
    try:
        df = sampler()
    except Exception as e:
        B.fact('no-exception:sample(include_regimen=True)', False, repr(e))
        return
    want = expected_doses(events, max(times))
    B.fact('columns of the table', all(c in df.columns for c in (
        'ID', 'Time', 'Observable', 'Value') + (
        ('Duration', 'Dose') if want else ())), repr(list(df.columns)))
    if want and 'Dose' not in df.columns:
        return
    dose = df[df['Dose'].notnull()] if want else df.iloc[0:0]
    meas = df[df['Observable'].notnull()]
    B.fact('number of measurement rows', len(meas) == n_meas,
           '%d vs %d' % (len(meas), n_meas))
    got = {}
    for _, r in dose.iterrows():
        got.setdefault(r['ID'], []).append(
            (r['Time'], r['Duration'], r['Dose']))
    if kind in ('posterior', 'prior', 'pam'):
        rows = sorted(((r['Time'], r['Duration'], r['Dose'])
                       for _, r in dose.iterrows()),
                      key=lambda r: float(r[0]))
        B.fact('every dose event up to the last requested time listed once',
               len(rows) == len(want), '%d vs %d' % (len(rows), len(want)))
        if len(rows) == len(want):
            for k, (r, w_) in enumerate(zip(rows, sorted(
                    want, key=lambda r: float(r[0])))):
                B.fact('dose %d: time' % k, float(r[0]) == float(w_[0]),
                       '%r vs %r' % (r[0], w_[0]))
                B.eq('dose %d: duration' % k, r[1], w_[1])
                B.eq('dose %d: amount = rate * duration' % k, r[2], w_[2])
        return
    ids = list(range(1, (ns or 1) + 1))
    B.fact('dose rows carry exactly the sample IDs',
           sorted(got, key=repr) == sorted(ids, key=repr) if want
           else not got, repr(sorted(got, key=repr)))
    for i in ids:
        rows = sorted(got.get(i, []), key=lambda r: float(r[0]))
        B.fact('sample %d: one row per dose event up to the last time' % i,
               len(rows) == len(want), '%d vs %d' % (len(rows), len(want)))
        if len(rows) != len(want):
            continue
        for k, (r, w) in enumerate(zip(rows, sorted(
                want, key=lambda r: float(r[0])))):
            B.fact('sample %d dose %d: time' % (i, k),
                   float(r[0]) == float(w[0]), '%r vs %r' % (r[0], w[0]))
            B.eq('sample %d dose %d: duration' % (i, k), r[1], w[1])
            B.eq('sample %d dose %d: amount = rate * duration' % (i, k),
                 r[2], w[2])


def case_population(B, cfg):
    if not B.symbolic:
        return   # term inspection: nothing to replay on floats
    units = cfg['units']
    D = hier.total_dim(units)
    n_mech = D - 1
    mm = _mech(B, n_mech, 1)
    pm = chi.PredictiveModel(mm, chi.GaussianErrorModel())
    n_ids_cfg = cfg['n_ids']
    pop = hier.make_population(units, n_ids_cfg)
    pop.set_n_ids(n_ids_cfg)
    ppm = chi.PopulationPredictiveModel(pm, pop)
    theta, per_dim = c06._units_theta(B, units, n_ids_cfg)
    n_cov = sum(u['cov'] for u in units)
    ns = cfg['n_samples']
    covs = [[B.var('chi%d_%d' % (s, c)) for c in range(n_cov)]
            for s in range(ns)] if n_cov else None
    B.fact('n_parameters', ppm.n_parameters() == len(theta))
    # support: (covariate-shifted) scales positive for every sampled person
    c0_ = 0
    for q, u in enumerate(units):
        k, nd = u['kind'], u['n_dim']
        thm, beta = per_dim[q]
        if not ps.is_delta(k):
            for j in range(nd):
                for s in range(ns if covs else 1):
                    sg = thm[1][j]
                    for c in range(u['cov']):
                        sg = sg + beta[1 * nd + j][c] * covs[s][c0_ + c]
                    B.assume(sg > 0)
        c0_ += u['cov']
    rng = B.new_rng()
    times = cfg['times']
    try:
        df = ppm.sample(ps.arr(B, theta), times, n_samples=ns, seed=5,
                        covariates=ps.arr(B, covs) if covs else None)
    except Exception as e:
        B.fact('no-exception:sample with n_samples=%d, n_ids=%d'
               % (ns, n_ids_cfg), False, repr(e))
        return
    st = sorted(times)
    meas = df[df['Observable'] == mm.outputs()[0]]
    rows = [(r['ID'], r['Time'], r['Value']) for _, r in meas.iterrows()]
    want = [(s + 1, t) for t in st for s in range(ns)]
    got = [(int(r[0]), float(r[1])) for r in rows]
    B.fact('labels: (time ascending, ID)', got == want, repr(got[:6]))
    if got != want:
        return
    psis = {}
    kinds = [u['kind'] for u in units for _ in range(u['n_dim'])]
    for (sid, t), r in zip(want, rows):
        v = Sym.lift(r[2])
        ya = _yargs(v)
        key = ('out0', float(t))
        label = 'row (ID %d, t=%s)' % (sid, t)
        B.fact('%s: uses its own time' % label, set(ya) == {key},
               repr(sorted(ya)))
        if set(ya) != {key}:
            return
        args = ya[key]
        # the error-model scale of this individual: coefficient of the noise
        # variable that does not occur inside the prediction
        inner = set(T.variables(list(args)))
        noise = [n for n in c06.eps_of(v) if n not in inner]
        # the measurement noise is drawn after the individual's parameters
        noise = sorted(noise, key=rng.order.index)[-1:]
        B.fact('%s: one measurement-noise variable' % label, len(noise) == 1,
               repr(noise))
        if len(noise) != 1:
            return
        scale = Sym(T.diff(v.t, T.var(noise[0])))
        B.eq('%s: affine in the measurement noise' % label,
             Sym(T.diff(scale.t, T.var(noise[0]))), 0)
        args = tuple(args) + (scale.t,)
        if sid in psis:
            B.fact('%s: same individual at every time' % label,
                   all(a is b for a, b in zip(args, psis[sid])))
        psis[sid] = args
    seen = set()
    cov0 = {}
    for sid in sorted(psis):
        args = psis[sid]
        # error-model scale = last population dimension of that individual
        d = 0
        c0_ = 0
        for q, u in enumerate(units):
            k, nd = u['kind'], u['n_dim']
            thm, beta = per_dim[q]
            for j in range(nd):
                a = Sym(args[d])
                label = 'individual %d, dim %d (%s)' % (sid, d, k)
                mu = thm[0][j] if not ps.is_delta(k) or k == 'pooled' \
                    else None
                sg = thm[1][j] if not ps.is_delta(k) else None
                for c in range(u['cov']):
                    x = covs[sid - 1][c0_ + c]
                    if k == 'pooled':
                        mu = mu + beta[j][c] * x
                    else:
                        mu = mu + beta[0 * nd + j][c] * x
                        sg = sg + beta[1 * nd + j][c] * x
                if k == 'pooled':
                    B.eq('%s = pooled value' % label, a, mu)
                elif k == 'hetero':
                    rowsv = [thm[i][j] for i in range(n_ids_cfg)]
                    B.fact('%s is one individual\'s value' % label,
                           any(a.t is Sym.lift(r_).t for r_ in rowsv))
                elif k == 'truncgauss':
                    nm = c06.eps_of(a)
                    B.fact('%s: one truncated draw' % label,
                           len(nm) == 1 and nm[0].startswith('tz['))
                elif k in ('gaussian', 'gaussian_nc'):
                    B.assume(sg > 0)
                    m0, V, nm = c06.affine_law(B, a, label)
                    B.eq('%s: mean' % label, m0, mu)
                    B.eq('%s: variance' % label, V, sg * sg)
                    B.fact('%s: noise private' % label,
                           not (set(nm) & seen))
                    seen |= set(nm)
                else:
                    B.assume(sg > 0)
                    B.holds('%s: positive' % label, a > 0)
                    m0, V, nm = c06.affine_law(B, B.log(a), label)
                    B.eq('%s: log-mean' % label, m0, mu)
                    B.eq('%s: log-variance' % label, V, sg * sg)
                    B.fact('%s: noise private' % label,
                           not (set(nm) & seen))
                    seen |= set(nm)
                d += 1
            c0_ += u['cov']
    if covs:
        cn = pop.get_covariate_names()
        for idc, name in enumerate(cn):
            crow = df[df['Observable'] == name]
            vals = list(crow['Value'])
            B.fact('covariate rows for %s' % name,
                   len(vals) == ns and list(crow['ID']) == list(
                       range(1, ns + 1)))
            for s in range(min(ns, len(vals))):
                B.eq('covariate %s of ID %d' % (name, s + 1), vals[s],
                     covs[s][idc])


def _posterior_dataset(B, names, ids, n_chains, n_draws, pop_level=()):
    data = {}
    cells = {}
    for n in names:
        if n in pop_level or ids is None:
            arr = np.empty((n_chains, n_draws), dtype=object)
            for c in range(n_chains):
                for d in range(n_draws):
                    arr[c, d] = B.var('c[%s|%d|%d]' % (n, c, d))
                    cells[(n, None, c, d)] = arr[c, d]
            data[n] = (('chain', 'draw'), arr)
        else:
            arr = np.empty((n_chains, n_draws, len(ids)), dtype=object)
            for c in range(n_chains):
                for d in range(n_draws):
                    for i, _id in enumerate(ids):
                        arr[c, d, i] = B.var('c[%s|%d|%d|%s]' % (n, c, d, _id))
                        cells[(n, _id, c, d)] = arr[c, d, i]
            data[n] = (('chain', 'draw', 'individual'), arr)
    coords = dict(chain=list(range(n_chains)), draw=list(range(n_draws)))
    if ids is not None:
        coords['individual'] = list(ids)
    return xr.Dataset(data, coords=coords), cells


def case_posterior(B, cfg):
    if not B.symbolic:
        return   # term inspection: nothing to replay on floats
    mm = _mech(B, 2, 1)
    pm = chi.PredictiveModel(mm, chi.GaussianErrorModel())
    names = pm.get_parameter_names()
    ids = ['ID a', 'ID b']
    nc, nd = cfg['n_chains'], cfg['n_draws']
    pop_level = [names[-1]] if cfg.get('pooled_sigma') else []
    ds, cells = _posterior_dataset(B, names, ids, nc, nd, pop_level)
    ppm = chi.PosteriorPredictiveModel(pm, ds)
    rng = B.new_rng()
    ind = cfg['individual']
    for n in names:
        if n == names[-1]:
            for key, v in cells.items():
                if key[0] == n:
                    B.assume(v > 0)
    times = cfg['times']
    ns = cfg['n_samples']
    if 'first' in cfg:
        # the same model was sampled for another individual before: only the
        # individual of *this* call counts
        ppm.sample(times, n_samples=1, individual=cfg['first'], seed=9)
        rng = B.new_rng()
    df = ppm.sample(times, n_samples=ns, individual=ind, seed=2)
    want_ind = ind if ind is not None else ids[0]
    st = sorted(times)
    rows = [(r['ID'], r['Time'], r['Value']) for _, r in df.iterrows()]
    want = [(s + 1, t) for s in range(ns) for t in st]
    got = [(int(r[0]), float(r[1])) for r in rows]
    B.fact('labels (ID, time ascending)', got == want, repr(got[:6]))
    if got != want:
        return
    per = {}
    for (sid, t), r in zip(want, rows):
        v = Sym.lift(r[2])
        ya = _yargs(v)
        key = ('out0', float(t))
        if set(ya) != {key}:
            B.fact('row uses its own time', False, repr(sorted(ya)))
            return
        m0, V, nm = c06.affine_law(B, v, 'row (ID %d, t=%s)' % (sid, t))
        per.setdefault(sid, []).append((ya[key], V))
    for sid, lst in per.items():
        args0, V0 = lst[0]
        # which joint row?
        hit = None
        for c in range(nc):
            for d in range(nd):
                row = []
                for n in names:
                    k = (n, None, c, d) if n in pop_level else \
                        (n, want_ind, c, d)
                    row.append(cells[k])
                if all(a is Sym.lift(b).t for a, b in
                       zip(args0, row[:2])):
                    hit = (c, d, row)
        B.fact('sample %d: mechanistic parameters are one (chain, draw) row '
               'of individual %s' % (sid, want_ind), hit is not None,
               repr([T.show(a) for a in args0]))
        if hit is None:
            continue
        c, d, row = hit
        B.cover('posterior row of sample %d' % sid, (c, d),
                expect=[(c_, d_) for c_ in range(nc) for d_ in range(nd)])
        for args, V in lst:
            B.fact('sample %d: same row at every time' % sid,
                   all(a is b for a, b in zip(args, args0)))
            B.eq('sample %d: noise scale from the same (chain %d, draw %d) '
                 'row' % (sid, c, d), V, row[2] * row[2])


def case_prior(B, cfg):
    if not B.symbolic:
        return   # term inspection: nothing to replay on floats
    n_out = cfg.get('n_out', 1)
    mm = _mech(B, 2, n_out)
    pm = chi.PredictiveModel(
        mm, [chi.GaussianErrorModel() for _ in range(n_out)])
    prior = SymPrior(B, 2 + n_out)
    ppm = chi.PriorPredictiveModel(pm, prior)
    rng = B.new_rng()
    ns = cfg['n_samples']
    times = cfg['times']
    # prior draws are fresh symbols: the scales must be positive
    df = None
    draws = []
    orig = prior.sample

    def sample(n=1):
        r = orig(n)
        draws.append(r)
        for o in range(n_out):
            B.assume(r[0][2 + o] > 0)
        return r
    prior.sample = sample
    df = ppm.sample(times, n_samples=ns, seed=cfg.get('seed'))
    st = sorted(times)
    outs = mm.outputs()
    rows = [(r['ID'], r['Time'], r['Observable'], r['Value'])
            for _, r in df.iterrows()]
    got = [(int(r[0]), float(r[1]), r[2]) for r in rows]
    if n_out == 1:
        want = [(s + 1, t, outs[0]) for s in range(ns) for t in st]
        B.fact('labels (ID, time ascending)', got == want, repr(got[:6]))
    else:
        want = [(s + 1, t, o) for s in range(ns) for o in outs for t in st]
        B.fact('labels: every (ID, time, observable) once',
               sorted(got) == sorted(want), repr(got[:8]))
        for sid in range(1, ns + 1):
            for o in outs:
                ts = [g[1] for g in got if g[0] == sid and g[2] == o]
                B.fact('labels: times of sample %d, %s ascending' % (sid, o),
                       ts == sorted(ts), repr(ts))
    B.fact('one prior draw per sample', len(draws) == ns, str(len(draws)))
    if sorted(got) != sorted(want) or len(draws) != ns:
        return
    for (sid, t, oname), r in zip(got, rows):
        v = Sym.lift(r[3])
        ya = _yargs(v)
        o = outs.index(oname)
        key = ('out%d' % o, float(t))
        if set(ya) != {key}:
            B.fact('row (ID %d, t=%s, %s) holds the prediction for its own '
                   'observable and time' % (sid, t, oname), False,
                   repr(sorted(ya)))
            continue
        d = draws[sid - 1][0]
        tag = 'sample %d t=%s%s' % (sid, t, '' if n_out == 1
                                    else ' ' + oname)
        for a, b in zip(ya[key], d[:2]):
            B.eq('%s: parameters = its prior draw' % tag, Sym(a), b)
        m0, V, nm = c06.affine_law(B, v, 'row %d %s %s' % (sid, t, oname))
        B.eq('%s: noise scale from the same draw' % tag, V,
             d[2 + o] * d[2 + o])


def case_pam(B, cfg):
    if not B.symbolic:
        return   # term inspection: nothing to replay on floats
    ns = cfg['n_samples']
    models = []
    for k in range(len(cfg['weights'])):
        mm = _mech(B, 2, 1, tag='Y%d' % k)
        pm = chi.PredictiveModel(mm, chi.GaussianErrorModel())
        ds, cells = _posterior_dataset(B, pm.get_parameter_names(),
                                       ['ID a'], 1, 2)
        for key, v in cells.items():
            if key[0] == pm.get_parameter_names()[-1]:
                B.assume(v > 0)
        models.append(chi.PosteriorPredictiveModel(pm, ds))
    w = cfg['weights']
    pam = chi.PAMPredictiveModel(models, w)
    rng = B.new_rng()
    rng.set_global('state-A')
    df = pam.sample([1.0], n_samples=ns, seed=4)
    ids = sorted(int(i) for i in df['ID'])
    B.fact('IDs are 1..n without collision', ids == list(range(1, ns + 1)),
           repr(ids))
    blocks = []
    for _, r in df.sort_values('ID').iterrows():
        v = Sym.lift(r['Value'])
        tags = {u.args[0][:2] for u in T.subterms([v.t])
                if u.op == 'f' and u.args[0].startswith('Y')}
        B.fact('sample %d comes from exactly one model' % int(r['ID']),
               len(tags) == 1, repr(tags))
        blocks.append(sorted(tags)[0] if tags else '?')
    B.fact('samples grouped model by model (IDs shifted by the previous '
           'counts)', blocks == sorted(blocks), repr(blocks))
    # which model every draw selected on this path: the table holds exactly
    # that many samples of each model
    drawn = [c for c, p in rng.choices if p is not None]
    if drawn:
        want_blocks = ['Y%d' % int(k) for k in sorted(drawn[0])]
        B.fact('every sample comes from the model its draw selected',
               blocks == want_blocks, '%r vs %r' % (blocks, want_blocks))
    w_used = [p for p in rng.choice_weights if p is not None]
    B.fact('model choice uses the normalised weights',
           len(w_used) >= 1 and np.allclose(
               np.asarray(w_used[0], dtype=float),
               np.array(w, dtype=float) / np.sum(w)), repr(w_used))


def jobs(tier):
    out = []
    q = tier == 'quick'
    F = {'max_paths': 300, 'diffcheck': False, 'replay_candidates': 1,
         'facts_final': True, 'confirm_by_terms': True}
    emsets = [['Gaussian'], ['LogNormal'], ['Multiplicative', 'Gaussian'],
              ['ConstantAndMultiplicative', 'LogNormal']]
    for ems in emsets:
        for times in ([[2.5, 1.0]] if q else [[2.5, 1.0], [1.0], [4.0, 0.0,
                                                                  1.0]]):
            for ns in (1, 2):
                for gen in (False, True):
                    out.append(('predictive', 'case_predictive', dict(
                        ems=ems, times=times, n_samples=ns, generator=gen),
                        F))
    U = hier.unit
    G = dict(F)
    G.pop('confirm_by_terms')
    G['diffcheck'] = True
    evsets = [[(1.0, 0, 0)], [(0.0, 0, 0), (2.0, 0, 0)],
              [(0.5, 1.0, 0)], [(0.5, 1.0, 2), (3.0, 0, 0)], [(5.0, 0, 0)],
              []]
    for k, ev in enumerate(evsets if q else evsets + [
            [(0.0, 0.5, 3), (1.0, 0, 0), (2.5, 0, 0)]]):
        for ns in (None, 1, 2, 3):
            out.append(('dose_rows', 'case_dose_rows', dict(
                kind='predictive', events=ev, times=[2.5, 1.0], n_samples=ns,
                n_out=1 + (k % 2)), G))
        for wk in ('posterior', 'prior', 'pam'):
            out.append(('dose_rows', 'case_dose_rows', dict(
                kind=wk, events=ev, times=[[2.5, 1.0], [1.0, 4.0, 2.5]][k % 2],
                n_samples=1 + (k % 2)), dict(G, max_paths=600)))
        for ns in (1, 2, 3):
            out.append(('dose_rows', 'case_dose_rows', dict(
                kind='population', events=ev, times=[2.5, 1.0], n_samples=ns,
                units=[[U('gaussian'), U('lognormal')],
                       [U('gaussian_nc', 2)]][k % 2]), G))
    comps = [[U('gaussian'), U('pooled')], [U('lognormal'), U('gaussian_nc')],
             [U('pooled'), U('lognormal_nc')], [U('gaussian', 2)],
             [U('hetero'), U('gaussian')], [U('truncgauss'), U('lognormal')],
             [U('gaussian', 1, 1), U('pooled')],
             [U('pooled', 1, 1), U('lognormal')]]
    if not q:
        comps += [[U(a), U(b)] for a in ps.KINDS for b in ps.KINDS][::3]
        comps += [[U('gaussian'), U('pooled'), U('lognormal_nc')],
                  [U('pooled'), U('gaussian', 2)]]
    for c in comps:
        for n_ids, ns in ((1, 1), (2, 2), (1, 2), (3, 2), (2, 1)):
            if any(u['kind'] == 'hetero' for u in c) and n_ids != ns:
                continue
            out.append(('population', 'case_population', dict(
                units=c, n_ids=n_ids, n_samples=ns, times=[2.5, 1.0]), F))
    for nc, nd in ((1, 2), (2, 2)) if q else ((1, 2), (2, 2), (2, 3)):
        for ind in (None, 'ID a', 'ID b'):
            for pooled in (False, True):
                out.append(('posterior', 'case_posterior', dict(
                    n_chains=nc, n_draws=nd, individual=ind, n_samples=2 if
                    nc * nd <= 4 else 1, times=[2.5, 1.0],
                    pooled_sigma=pooled), F))
    for first, ind in (('ID b', 'ID a'), ('ID b', None), (None, 'ID b'),
                       ('ID a', 'ID b')):
        out.append(('posterior', 'case_posterior', dict(
            n_chains=1, n_draws=2, individual=ind, first=first, n_samples=1,
            times=[2.5, 1.0], pooled_sigma=False), F))
    for ns in (1, 2):
        for seed in (None, 7):
            out.append(('prior', 'case_prior', dict(
                n_samples=ns, times=[2.5, 1.0], seed=seed), F))
    for ns, times_ in ((1, [2.5, 1.0]), (2, [2.5, 1.0, 4.0]), (2, [1.0])):
        out.append(('prior', 'case_prior', dict(
            n_samples=ns, times=times_, seed=7, n_out=2), F))
    for ns in ((1, 2) if q else (1, 2, 3)):
        out.append(('pam', 'case_pam', dict(n_samples=ns,
                                            weights=[2.0, 1.0]), F))
    # three (four) candidate models, every one of them receiving draws on
    # some path: the ID shift is cumulative over all earlier blocks
    out.append(('pam', 'case_pam', dict(n_samples=3, weights=[1.0, 1.0, 1.0]),
                dict(F, max_paths=1500)))
    if not q:
        out.append(('pam', 'case_pam', dict(
            n_samples=3, weights=[2.0, 0.5, 1.0, 3.0]),
            dict(F, max_paths=4000)))
    return out


BOUNDS = dict(
    quick='4 error-model assignments (1-2 outputs), 1-2 samples, unsorted '
          'times, int and Generator seeds; 8 population compositions with '
          '(n_ids configured, n_samples) in {(1,1),(2,2),(1,2),(3,2),(2,1)}; '
          'posteriors with <= 2 chains x 2 draws x 2 individuals, default / '
          'named individual, individual- and population-level scale; prior '
          'predictive with 1-2 samples and 1-2 outputs; PAM with 2 models and 1-2 samples and with 3 models and 3 samples; '
          'dose-event rows of PredictiveModel / PopulationPredictiveModel '
          'tables for 6 regimens (single, several, periodic finite and '
          'indefinite, after the last time, none) x n_samples None/1/2/3',
    thorough='more time vectors, a third of all two-unit population '
             'compositions, 2 chains x 3 draws, PAM with 3 samples',
    outside='larger tables; the pseudo-random bit generator; pandas/xarray '
            'internals are executed for real on object columns (a table cell '
            'that pandas would coerce cannot be followed)')
TRUSTED = ['RNG stub contract', 'uninterpreted mechanistic model (the '
           'arguments of Y identify the individual\'s parameters)', 'z3',
           'pandas / xarray object columns']
