"""C11 - mechanistic model behaviour depends only on its final
configuration."""
import itertools

import numpy as np

import chi
import chi.library

from chisym import facade_myokit as fm

from . import popspec as ps

EXPLANATION = (
    'All histories of configuration calls up to the bound (set_administration '
    'direct / indirect, two dosing regimens with symbolic doses, output '
    'selection, parameter and output renaming, enabling / disabling '
    'sensitivities, copy) are applied to a chi.PKPDModel over the myokit '
    'stub.  After each history the observables -- parameters(), '
    'n_parameters(), outputs(), the reported regimen, and simulate(p, t) as a '
    'term that includes the protocol on the live simulator and the '
    'sensitivity request -- are decided equal to those of a fresh model to '
    'which only the net configuration is applied, the reported regimen is '
    'the protocol the live simulator holds, and copies equal their original '
    'at the moment of copying and are unaffected by later operations.')

FACADE = {'facade': {'myokit': True}, 'diffcheck': False}

OPS = ['Ad', 'Ai', 'D1', 'D2', 'O1', 'O2', 'RP', 'RO', 'S+', 'S-', 'C']
TIMES = [0.5, 2.0]


def fresh(model_name):
    return getattr(chi.library.ModelLibrary(), model_name)()


def apply_op(B, m, op, st):
    """apply one operation; st = harness-side record of what was requested"""
    if op == 'Ad':
        m.set_administration('central', direct=True)
        st['admin'] = 'Ad'
        st['sens'] = False   # documented: resets the sensitivity settings
    elif op == 'Ai':
        m.set_administration('central', direct=False)
        st['admin'] = 'Ai'
        st['sens'] = False
    elif op in ('D1', 'D2'):
        if st.get('admin') is None:
            try:
                m.set_dosing_regimen(1.0)
                B.fact('regimen without administration is rejected', False)
            except ValueError:
                pass
            return m
        if op == 'D1':
            m.set_dosing_regimen(B.var('dose1'), start=B.var('start1'))
        else:
            m.set_dosing_regimen(B.var('dose2'), start=B.var('start2'),
                                 duration=B.var('dur2'),
                                 period=B.var('per2'), num=3)
        st['regimen'] = op
    elif op == 'O1':
        m.set_outputs(['central.drug_amount'])
        st['outputs'] = ['central.drug_amount']
        if st.get('ro') not in st['outputs']:
            st.pop('ro', None)   # a rename lives with the selected output
        st['sens'] = False   # documented
    elif op == 'O2':
        m.set_outputs(['central.drug_concentration', 'central.drug_amount'])
        st['outputs'] = ['central.drug_concentration', 'central.drug_amount']
        if st.get('ro') not in st['outputs']:
            st.pop('ro', None)
        st['sens'] = False
    elif op == 'RP':
        if st.get('rp'):
            return m      # renaming twice to the same name is rejected by chi
        m.set_parameter_names({'central.size': 'V'})
        st['rp'] = True
    elif op == 'RO':
        if 'ro' in st:
            return m
        cur = m.outputs()
        m.set_output_names({cur[0]: 'Y'})
        st['ro'] = cur[0] if 'ro' not in st else st['ro']
    elif op == 'S+':
        m.enable_sensitivities(True)
        st['sens'] = True
    elif op == 'S-':
        m.enable_sensitivities(False)
        st['sens'] = False
    elif op == 'C':
        m = m.copy()
    return m


def reference(B, model_name, st):
    r = fresh(model_name)
    if st.get('admin') == 'Ad':
        r.set_administration('central', direct=True)
    elif st.get('admin') == 'Ai':
        r.set_administration('central', direct=False)
    if st.get('regimen') == 'D1':
        r.set_dosing_regimen(B.var('dose1'), start=B.var('start1'))
    elif st.get('regimen') == 'D2':
        r.set_dosing_regimen(B.var('dose2'), start=B.var('start2'),
                             duration=B.var('dur2'), period=B.var('per2'),
                             num=3)
    if st.get('outputs'):
        r.set_outputs(st['outputs'])
    if st.get('rp'):
        r.set_parameter_names({'central.size': 'V'})
    if st.get('ro'):
        cur = r.outputs()
        if st['ro'] in cur:
            r.set_output_names({st['ro']: 'Y'})
    if st.get('sens'):
        r.enable_sensitivities(True)
    return r


def observe(B, m, tag):
    obs = {}
    obs['parameters'] = tuple(m.parameters())
    obs['n_parameters'] = m.n_parameters()
    obs['outputs'] = tuple(m.outputs())
    reg = m.dosing_regimen()
    obs['regimen'] = None if reg is None else tuple(
        (e.multiplier(),) for e in reg.events())
    obs['regimen_fields'] = [] if reg is None else [
        f for e in reg.events() for f in e.fields()[:4]]
    live = m._simulator._protocol
    B.fact('%s: reported regimen is the one the live simulator applies'
           % tag, reg is live or (reg is not None and live is not None and
                                  reg.key() == live.key()),
           'reported %r, live %r' % (
               None if reg is None else 'regimen',
               None if live is None else 'regimen'))
    B.fact('%s: n_parameters = len(parameters())' % tag,
           obs['n_parameters'] == len(obs['parameters']))
    n = len(obs['parameters'])
    p = [B.var('p%d' % i) for i in range(n)]
    try:
        out = m.simulate(ps.arr(B, p), TIMES)
    except Exception as e:
        B.fact('%s: no-exception:simulate' % tag, False, repr(e))
        obs['sim'] = None
        return obs
    if m.has_sensitivities():
        y, s = out
        obs['sens_shape'] = tuple(np.shape(s))
        obs['sens'] = [x for x in np.asarray(s, dtype=object).ravel()]
    else:
        y = out
        obs['sens_shape'] = None
        obs['sens'] = []
    obs['sim_shape'] = tuple(np.shape(y))
    obs['sim'] = [x for x in np.asarray(y, dtype=object).ravel()]
    return obs


def compare(B, tag, a, b):
    for k in ('parameters', 'n_parameters', 'outputs', 'regimen',
              'sim_shape', 'sens_shape'):
        if k in a or k in b:
            B.fact('%s: %s' % (tag, k), a.get(k) == b.get(k),
                   '%r vs %r' % (a.get(k), b.get(k)))
    for k in ('regimen_fields', 'sim', 'sens'):
        x, y = a.get(k), b.get(k)
        if x is None or y is None:
            if x is not y:
                B.fact('%s: %s available on both sides' % (tag, k), False)
            continue
        if len(x) != len(y):
            continue
        for i, (u, v) in enumerate(zip(x, y)):
            B.eq('%s: %s[%d]' % (tag, k, i), u, v)


def case_history(B, cfg):
    name = cfg['model']
    ops = cfg['ops']
    m = fresh(name)
    st = {}
    keep = []      # (copy kept aside, its snapshot)
    for op in ops:
        if op == 'Co':
            c = m.copy()
            keep.append((c, observe(B, c, 'copy at the moment of copying'),
                         observe(B, m, 'original at the moment of copying')))
            continue
        try:
            m = apply_op(B, m, op, st)
        except Exception as e:
            B.fact('no-exception:%s' % op, False, repr(e))
            return
    got = observe(B, m, 'after history')
    want = observe(B, reference(B, name, st), 'fresh model with net config')
    compare(B, 'history = net configuration', got, want)
    for c, snap_c, snap_o in keep:
        compare(B, 'copy = original at the moment of copying', snap_c, snap_o)
        compare(B, 'copy unaffected by later operations',
                observe(B, c, 'kept copy'), snap_c)


def jobs(tier):
    out = []
    q = tier == 'quick'
    alphabet = OPS + ['Co']
    L = 2 if q else 3
    models = ['one_compartment_pk_model'] if q else [
        'one_compartment_pk_model',
        'erlotinib_tumour_growth_inhibition_model']
    for name in models:
        for n in range(1, L + 1):
            for ops in itertools.product(alphabet, repeat=n):
                if name != 'one_compartment_pk_model' and n == 3 and \
                        (sum((i + 1) * alphabet.index(o)
                             for i, o in enumerate(ops)) % 4):
                    continue
                o = list(ops)
                if name != 'one_compartment_pk_model':
                    # this model has no concentration-only default output
                    pass
                out.append(('history', 'case_history',
                            dict(model=name, ops=o), FACADE))
    if q:
        small = ['Ad', 'Ai', 'D1', 'D2', 'S+', 'C']
        for ops in itertools.product(small, repeat=3):
            out.append(('history', 'case_history', dict(
                model='one_compartment_pk_model', ops=list(ops)), FACADE))
    # dosed model, then every pair of further operations
    suffix = ['S+', 'S-', 'C', 'Co', 'O1', 'RP', 'D1']
    for a_ in ('Ad', 'Ai'):
        for d_ in ('D1', 'D2'):
            for x_ in suffix:
                for y_ in suffix:
                    out.append(('history', 'case_history', dict(
                        model='one_compartment_pk_model',
                        ops=[a_, d_, x_, y_]), FACADE))
    # a few deeper, targeted histories
    deep = [['Ai', 'D2', 'S+', 'Ad'], ['Ad', 'D1', 'Co', 'Ai', 'D2'],
            ['Ai', 'RP', 'S+', 'C', 'S-'], ['Ad', 'D2', 'O2', 'RO', 'S+'],
            ['Ai', 'D1', 'S+', 'C', 'D2', 'S-']]
    for o in deep:
        out.append(('history', 'case_history',
                    dict(model='one_compartment_pk_model', ops=o), FACADE))
    return out


BOUNDS = dict(
    quick='library one-compartment model; all 12 + 144 histories of <= 2 '
          'operations, all 216 histories of 3 operations over {Ad, Ai, D1, D2, '
          'S+, C}; all 196 four-step histories (administration, regimen, two '
          'of {S+, S-, C, Co, O1, RP, D1}); '
          'operations over {Ad, Ai, D1, D2, O1, O2, RP, RO, S+, S-, C, Co} '
          'plus 5 targeted histories of length 4-6',
    thorough='all histories of <= 3 operations on the one-compartment model '
             '(1884) and a quarter of them on the erlotinib PKPD model',
    outside='longer histories; fix_parameters through '
            'ReducedMechanisticModel (C08/C09); the integrator')
TRUSTED = ['myokit stub contract', 'reference = the same chi code on a fresh '
           'model in canonical order (administration, regimen, outputs, '
           'renaming, sensitivities)', 'z3']
