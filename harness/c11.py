"""C11 - mechanistic model behaviour depends only on its final
configuration."""
import itertools

import numpy as np

import chi
import chi.library

from chisym import facade_myokit as fm

from . import popspec as ps

EXPLANATION = (
    'All histories of configuration calls up to the bound (set_administration '
    'direct / indirect, two dosing regimens with symbolic doses, output '
    'selection, parameter and output renaming, enabling / disabling '
    'sensitivities, copy) are applied to a chi.PKPDModel over the myokit '
    'stub.  After each history the observables -- parameters(), '
    'n_parameters(), outputs(), the reported regimen, and simulate(p, t) as a '
    'term that includes the protocol on the live simulator and the '
    'sensitivity request -- are decided equal to those of a fresh model to '
    'which only the net configuration is applied, the reported regimen is '
    'the protocol the live simulator holds, and copies equal their original '
    'at the moment of copying and are unaffected by later operations.')

FACADE = {'facade': {'myokit': True}, 'diffcheck': False}

OPS = ['Ad', 'Ai', 'D1', 'D2', 'D3', 'O1', 'O2', 'RP', 'RO', 'S+', 'Ss', 'S-',
       'C']
TIMES = [0.5, 2.0]


def fresh(model_name):
    return getattr(chi.library.ModelLibrary(), model_name)()


def apply_op(B, m, op, st):
    """apply one operation; st = harness-side record of what was requested"""
    if op == 'Ad':
        m.set_administration('central', direct=True)
        st['admin'] = 'Ad'
        st['sens'] = False   # documented: resets the sensitivity settings
    elif op == 'Ai':
        m.set_administration('central', direct=False)
        st['admin'] = 'Ai'
        st['sens'] = False
    elif op in ('D1', 'D2', 'D3'):
        if st.get('admin') is None:
            try:
                m.set_dosing_regimen(1.0)
                B.fact('regimen without administration is rejected', False)
            except ValueError:
                pass
            return m
        if op == 'D1':
            m.set_dosing_regimen(B.var('dose1'), start=B.var('start1'))
        elif op == 'D3':
            m.set_dosing_regimen(_protocol3(B))
        else:
            m.set_dosing_regimen(B.var('dose2'), start=B.var('start2'),
                                 duration=B.var('dur2'),
                                 period=B.var('per2'), num=3)
        st['regimen'] = op
    elif op == 'O1':
        m.set_outputs(['central.drug_amount'])
        st['outputs'] = ['central.drug_amount']
        if st.get('ro') not in st['outputs']:
            st.pop('ro', None)   # a rename lives with the selected output
        st['sens'] = False   # documented
    elif op == 'O2':
        m.set_outputs(['central.drug_concentration', 'central.drug_amount'])
        st['outputs'] = ['central.drug_concentration', 'central.drug_amount']
        if st.get('ro') not in st['outputs']:
            st.pop('ro', None)
        st['sens'] = False
    elif op == 'RP':
        if st.get('rp'):
            return m      # renaming twice to the same name is rejected by chi
        m.set_parameter_names({'central.size': 'V'})
        st['rp'] = True
        st['rp_name'] = 'V'
    elif op == 'R2':
        # a second rename, addressed by the currently published name
        if not st.get('rp') or st.get('rp_name') == 'W':
            return m
        m.set_parameter_names({'V': 'W'})
        st['rp_name'] = 'W'
    elif op == 'RO':
        if 'ro' in st:
            return m
        cur = m.outputs()
        m.set_output_names({cur[0]: 'Y'})
        st['ro'] = cur[0] if 'ro' not in st else st['ro']
    elif op == 'S+':
        m.enable_sensitivities(True)
        st['sens'] = True
    elif op == 'Ss':
        # sensitivities for a subset, named as published at this moment:
        # the first parameter and the compartment size (which RP renames)
        pub = m.parameters()
        m.enable_sensitivities(True, parameter_names=[
            pub[0], [n for n in ('W', 'V', 'central.size') if n in pub][0]])
        st['sens'] = 'subset'
    elif op == 'S-':
        m.enable_sensitivities(False)
        st['sens'] = False
    elif op == 'C':
        m = m.copy()
        if st.get('sens') == 'subset':
            st['sens'] = True    # documented: a copy computes all of them
    return m


def _protocol3(B):
    """an explicit protocol (two different events) instead of numbers"""
    import chi._mechanistic_models as mmod
    p = mmod.myokit.Protocol()
    p.schedule(B.var('lvl3a'), B.var('start3a'), B.var('dur3a'))
    p.schedule(B.var('lvl3b'), B.var('start3b'), B.var('dur3b'),
               B.var('per3b'), 2)
    return p


def reference(B, model_name, st):
    r = fresh(model_name)
    if st.get('admin') == 'Ad':
        r.set_administration('central', direct=True)
    elif st.get('admin') == 'Ai':
        r.set_administration('central', direct=False)
    if st.get('regimen') == 'D3':
        r.set_dosing_regimen(_protocol3(B))
    elif st.get('regimen') == 'D1':
        r.set_dosing_regimen(B.var('dose1'), start=B.var('start1'))
    elif st.get('regimen') == 'D2':
        r.set_dosing_regimen(B.var('dose2'), start=B.var('start2'),
                             duration=B.var('dur2'), period=B.var('per2'),
                             num=3)
    if st.get('outputs'):
        r.set_outputs(st['outputs'])
    # (the reference selects the sensitivities before it renames: the net
    # configuration does not depend on that order)
    if st.get('sens') == 'subset':
        r.enable_sensitivities(True, parameter_names=[
            r.parameters()[0], 'central.size'])
    elif st.get('sens'):
        r.enable_sensitivities(True)
    if st.get('rp'):
        r.set_parameter_names({'central.size': st.get('rp_name', 'V')})
    if st.get('ro'):
        cur = r.outputs()
        if st['ro'] in cur:
            r.set_output_names({st['ro']: 'Y'})
    return r


def observe(B, m, tag):
    obs = {}
    obs['parameters'] = tuple(m.parameters())
    obs['n_parameters'] = m.n_parameters()
    obs['outputs'] = tuple(m.outputs())
    reg = m.dosing_regimen()
    obs['regimen'] = None if reg is None else tuple(
        (e.multiplier(),) for e in reg.events())
    obs['regimen_fields'] = [] if reg is None else [
        f for e in reg.events() for f in e.fields()[:4]]
    live = m._simulator._protocol
    B.fact('%s: reported regimen is the one the live simulator applies'
           % tag, reg is live or (reg is not None and live is not None and
                                  reg.key() == live.key()),
           'reported %r, live %r' % (
               None if reg is None else 'regimen',
               None if live is None else 'regimen'))
    B.fact('%s: n_parameters = len(parameters())' % tag,
           obs['n_parameters'] == len(obs['parameters']))
    n = len(obs['parameters'])
    p = [B.var('p%d' % i) for i in range(n)]
    try:
        out = m.simulate(ps.arr(B, p), TIMES)
    except Exception as e:
        B.fact('%s: no-exception:simulate' % tag, False, repr(e))
        obs['sim'] = None
        return obs
    if m.has_sensitivities():
        y, s = out
        obs['sens_shape'] = tuple(np.shape(s))
        obs['sens'] = [x for x in np.asarray(s, dtype=object).ravel()]
    else:
        y = out
        obs['sens_shape'] = None
        obs['sens'] = []
    obs['sim_shape'] = tuple(np.shape(y))
    obs['sim'] = [x for x in np.asarray(y, dtype=object).ravel()]
    return obs


def compare(B, tag, a, b):
    for k in ('parameters', 'n_parameters', 'outputs', 'regimen',
              'sim_shape', 'sens_shape'):
        if k in a or k in b:
            B.fact('%s: %s' % (tag, k), a.get(k) == b.get(k),
                   '%r vs %r' % (a.get(k), b.get(k)))
    for k in ('regimen_fields', 'sim', 'sens'):
        x, y = a.get(k), b.get(k)
        if x is None or y is None:
            if x is not y:
                B.fact('%s: %s available on both sides' % (tag, k), False)
            continue
        if len(x) != len(y):
            continue
        for i, (u, v) in enumerate(zip(x, y)):
            B.eq('%s: %s[%d]' % (tag, k, i), u, v)


def case_history(B, cfg):
    name = cfg['model']
    ops = cfg['ops']
    m = fresh(name)
    st = {}
    keep = []      # (copy kept aside, its snapshot)
    for op in ops:
        if op == 'Co':
            c = m.copy()
            snap_c = observe(B, c, 'copy at the moment of copying')
            snap_o = observe(B, m, 'original at the moment of copying')
            if st.get('sens') == 'subset':
                # documented: copying resets the sensitivity *settings* (the
                # copy computes the sensitivities of all parameters)
                snap_o = {k: v for k, v in snap_o.items()
                          if k not in ('sens', 'sens_shape')}
                snap_o['sens_shape'] = snap_c.get('sens_shape')
                snap_o['sens'] = snap_c.get('sens')
                B.fact('copy of a model with a sensitivity subset computes '
                       'all sensitivities',
                       snap_c.get('sens_shape') is not None and
                       snap_c['sens_shape'][-1] == snap_c['n_parameters'],
                       repr(snap_c.get('sens_shape')))
            keep.append((c, snap_c, snap_o))
            continue
        try:
            m = apply_op(B, m, op, st)
        except Exception as e:
            B.fact('no-exception:%s' % op, False, repr(e))
            return
    got = observe(B, m, 'after history')
    want = observe(B, reference(B, name, st), 'fresh model with net config')
    compare(B, 'history = net configuration', got, want)
    for c, snap_c, snap_o in keep:
        compare(B, 'copy = original at the moment of copying', snap_c, snap_o)
        compare(B, 'copy unaffected by later operations',
                observe(B, c, 'kept copy'), snap_c)


# ------------------------------------------------- reduced (fixed parameters)
ROPS = ['F0', 'F1', 'G0', 'R0', 'R1', 'SW', 'RA', 'S+', 'S-', 'C', 'Co',
        'RN']


def _dosed(B):
    m = fresh('one_compartment_pk_model')
    m.set_administration('central', direct=True)
    m.set_dosing_regimen(B.var('dose1'), start=B.var('start1'))
    return m


def apply_rop(B, r, op, st, names):
    fixed = st.setdefault('fixed', {})
    if op in ('F0', 'F1', 'G0'):
        i = int(op[1])
        v = B.var('fixval_%s' % op)
        r.fix_parameters({names[i]: v})
        fixed[i] = v
    elif op in ('R0', 'R1'):
        i = int(op[1])
        r.fix_parameters({names[i]: None})
        fixed.pop(i, None)
    elif op == 'SW':
        # one call that releases parameter 0 and fixes parameter 1
        v = B.var('fixval_SW')
        r.fix_parameters({names[0]: None, names[1]: v})
        fixed.pop(0, None)
        fixed[1] = v
    elif op == 'RA':
        r.fix_parameters({n_: None for n_ in names})
        fixed.clear()
    elif op == 'S+':
        r.enable_sensitivities(True)
        st['sens'] = True
    elif op == 'S-':
        r.enable_sensitivities(False)
        st['sens'] = False
    elif op == 'C':
        r = r.copy()
    elif op == 'RN':
        # rename a free parameter through the reduced model: later calls use
        # the name that is published from then on
        if 1 not in fixed and not st.get('renamed'):
            r.set_parameter_names({names[1]: 'renamed'})
            names[1] = 'renamed'
            st['renamed'] = True
    return r


def observe_reduced(B, r, tag, names, free_hint=None):
    obs = {}
    obs['parameters'] = tuple(r.parameters())
    obs['n_parameters'] = r.n_parameters()
    obs['outputs'] = tuple(r.outputs())
    obs['has_sensitivities'] = bool(r.has_sensitivities())
    B.fact('%s: n_parameters = len(parameters())' % tag,
           obs['n_parameters'] == len(obs['parameters']))
    # the same symbolic value for a parameter whatever its position
    p = [B.var('p_' + n_.replace('.', '_')) for n_ in obs['parameters']]
    try:
        out = r.simulate(ps.arr(B, p), TIMES)
    except Exception as e:
        B.fact('%s: no-exception:simulate' % tag, False, repr(e))
        obs['sim'] = None
        return obs
    if r.has_sensitivities():
        y, sn = out
        obs['sens_shape'] = tuple(np.shape(sn))
        obs['sens'] = [x for x in np.asarray(sn, dtype=object).ravel()]
    else:
        y = out
        obs['sens_shape'] = None
        obs['sens'] = []
    obs['sim_shape'] = tuple(np.shape(y))
    obs['sim'] = [x for x in np.asarray(y, dtype=object).ravel()]
    return obs


def case_reduced(B, cfg):
    """fix / re-fix / release / swap / sensitivities / copy on a
    ReducedMechanisticModel over a dosed PKPD model"""
    ops = cfg['ops']
    r = chi.ReducedMechanisticModel(_dosed(B))
    names = r.parameters()
    orig_names = list(names)
    st = {}
    keep = []
    for op in ops:
        if op == 'Co':
            c = r.copy()
            keep.append((c, observe_reduced(B, c, 'copy at copying', names),
                         observe_reduced(B, r, 'original at copying', names)))
            continue
        try:
            r = apply_rop(B, r, op, st, names)
        except Exception as e:
            B.fact('no-exception:%s' % op, False, repr(e))
            return
    got = observe_reduced(B, r, 'after history', names)
    ref = chi.ReducedMechanisticModel(_dosed(B))
    # (the reference fixes and selects first and renames last)
    net = {orig_names[i]: v for i, v in st.get('fixed', {}).items()}
    if net:
        ref.fix_parameters(net)
    if st.get('sens'):
        ref.enable_sensitivities(True)
    if st.get('renamed'):
        ref.set_parameter_names({orig_names[1]: 'renamed'})
    want = observe_reduced(B, ref, 'fresh reduced model with net config',
                           names)
    B.fact('history = net configuration: free names in original order',
           list(got['parameters']) == [n_ for i, n_ in enumerate(names)
                                       if i not in st.get('fixed', {})],
           repr(got['parameters']))
    B.fact('history = net configuration: has_sensitivities',
           got['has_sensitivities'] == bool(st.get('sens')),
           repr(got['has_sensitivities']))
    compare(B, 'reduced: history = net configuration', got, want)
    for c, snap_c, snap_o in keep:
        compare(B, 'reduced: copy = original at the moment of copying',
                snap_c, snap_o)
        compare(B, 'reduced: copy unaffected by later operations',
                observe_reduced(B, c, 'kept copy', names), snap_c)


def reduced_jobs(tier):
    out = []
    q = tier == 'quick'
    seqs = []
    for n in (1, 2):
        seqs += [list(o) for o in itertools.product(ROPS, repeat=n)]
    three = [list(o) for o in itertools.product(ROPS, repeat=3)]
    if q:
        three = [o for o in three if o[0] in ('F0', 'S+') and
                 ('Co' in o or 'C' in o or 'SW' in o or 'RA' in o)]
    seqs += three
    seqs += [['F0', 'S+', 'Co', 'F1', 'S-'], ['S+', 'F0', 'C', 'SW', 'RA'],
             ['F0', 'F1', 'Co', 'G0', 'R1'], ['F0', 'Co', 'S+', 'SW', 'C']]
    for o in seqs:
        out.append(('reduced', 'case_reduced', dict(ops=o), FACADE))
    return out


def jobs(tier):
    out = reduced_jobs(tier)
    q = tier == 'quick'
    alphabet = OPS + ['Co']
    L = 2 if q else 3
    models = ['one_compartment_pk_model'] if q else [
        'one_compartment_pk_model',
        'erlotinib_tumour_growth_inhibition_model']
    for name in models:
        for n in range(1, L + 1):
            for ops in itertools.product(alphabet, repeat=n):
                if name != 'one_compartment_pk_model' and n == 3 and \
                        (sum((i + 1) * alphabet.index(o)
                             for i, o in enumerate(ops)) % 4):
                    continue
                o = list(ops)
                if name != 'one_compartment_pk_model':
                    # this model has no concentration-only default output
                    pass
                out.append(('history', 'case_history',
                            dict(model=name, ops=o), FACADE))
    if q:
        small = ['Ad', 'Ai', 'D1', 'D2', 'S+', 'Ss', 'C']
        for ops in itertools.product(small, repeat=3):
            out.append(('history', 'case_history', dict(
                model='one_compartment_pk_model', ops=list(ops)), FACADE))
    if q:
        # output selection / renaming histories (the name tables)
        for ops in itertools.product(['RO', 'O1', 'O2', 'RP'], repeat=3):
            out.append(('history', 'case_history', dict(
                model='one_compartment_pk_model', ops=list(ops)), FACADE))
    # dosed model, then every pair of further operations
    suffix = ['S+', 'S-', 'C', 'Co', 'O1', 'RP', 'D1']
    for a_ in ('Ad', 'Ai'):
        for d_ in ('D1', 'D2'):
            for x_ in suffix:
                for y_ in suffix:
                    out.append(('history', 'case_history', dict(
                        model='one_compartment_pk_model',
                        ops=[a_, d_, x_, y_]), FACADE))
    # a few deeper, targeted histories
    deep = [['Ai', 'D2', 'S+', 'Ad'], ['Ad', 'D1', 'Co', 'Ai', 'D2'],
            ['Ai', 'RP', 'S+', 'C', 'S-'], ['Ad', 'D2', 'O2', 'RO', 'S+'],
            ['Ai', 'D1', 'S+', 'C', 'D2', 'S-']]
    # a parameter renamed twice (the second time by its published name)
    two = ['RP', 'R2', 'S+', 'Ss', 'C', 'O2', 'S-']
    for n_ in (2, 3, 4):
        for ops in itertools.product(two, repeat=n_):
            if ops[0] != 'RP' or 'R2' not in ops:
                continue
            if n_ == 4 and q and (sum((i + 1) * two.index(o)
                                      for i, o in enumerate(ops)) % 3):
                continue
            out.append(('history', 'case_history', dict(
                model='one_compartment_pk_model', ops=list(ops)), FACADE))
    deep += [['Ai', 'D1', 'RP', 'R2', 'Ss'], ['Ad', 'RP', 'S+', 'R2', 'C'],
             ['Ai', 'RP', 'R2', 'D2', 'Co']]
    for o in deep:
        out.append(('history', 'case_history',
                    dict(model='one_compartment_pk_model', ops=o), FACADE))
    return out


BOUNDS = dict(
    quick='library one-compartment model; all 12 + 144 histories of <= 2 '
          'operations, all 216 histories of 3 operations over {Ad, Ai, D1, D2, '
          'S+, C} and all 64 over {RO, O1, O2, RP}; all 196 four-step histories (administration, regimen, two '
          'of {S+, S-, C, Co, O1, RP, D1}); '
          'operations over {Ad, Ai, D1, D2, O1, O2, RP, RO, S+, S-, C, Co} '
          'plus 8 targeted histories of length 4-6 and 52 histories of 2-4 '
          'operations with a second rename of the same parameter; ReducedMechanisticModel '
          'over the dosed model: all histories of <= 2 operations over {fix '
          'p0, fix p1, re-fix p0, release p0, release p1, swap in one call, '
          'release all, S+, S-, continue with a copy, keep a copy}, the '
          '3-step ones that start with fix p0 / S+ and contain a copy, swap '
          'or release-all, 4 targeted 5-step histories',
    thorough='all 1331 3-step histories on the reduced model; '
             'all histories of <= 3 operations on the one-compartment model '
             '(1884) and a quarter of them on the erlotinib PKPD model',
    outside='longer histories; the integrator')
TRUSTED = ['myokit stub contract', 'reference = the same chi code on a fresh '
           'model in canonical order (administration, regimen, outputs, '
           'renaming, sensitivities)', 'z3']
