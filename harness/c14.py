"""C14 - the problem controller builds exactly the posterior the dataset
describes."""
import itertools

import numpy as np

import chi
import chi.library

from chisym import facade_myokit as fm

from . import hier
from . import popspec as ps
from .stubs import SymMechModel, SymPrior

EXPLANATION = (
    'chi.ProblemModellingController (set_data with its type cleaning, '
    'observable / covariate mapping, per-individual row selection, regimen '
    'and covariate extraction, set_population_model, fix_parameters, '
    'set_log_prior, get_log_posterior) is run on pandas data frames whose '
    'structure (IDs and their type, observables, which cells are missing, row '
    'order, extra rows and columns) is concrete and whose payload -- measured '
    'values, dose amounts and durations, covariate values -- is symbolic '
    '(object columns; pd.to_numeric passes them through).  The posterior it '
    'returns is evaluated at a symbolic parameter vector and decided equal to '
    'the posterior assembled by hand from the same ground truth: one '
    'chi.LogLikelihood per individual over a copy of the model carrying that '
    'individual\'s own protocol, with its own non-missing measurements of the '
    'mapped observables at their own times, in the hierarchical case joined '
    'by the population model with that individual\'s covariates in ID order.  '
    'The mechanistic model is uninterpreted (the solution symbol is keyed by '
    'the protocol events, so a regimen routed to the wrong individual is a '
    'different term).  Every variant of a dataset (unrelated rows, an extra '
    'column, integer IDs, shuffled blocks, missing values) is compared with '
    'the same hand-built posterior.')

FACADE = {'facade': {'myokit': True}, 'diffcheck': False}
NAN = float('nan')

# measurement times per individual and output (unbalanced)
TIMES = [[[1.0, 2.5], [0.5]], [[2.5], [1.0, 4.0]], [[0.5, 1.0, 4.0], []]]


# ---------------------------------------------------------------- the truth
def truth(B, cfg):
    """ground truth: per individual the measurements per output, the dose
    rows and the covariate values (all payloads symbolic)"""
    n_ids, n_out = cfg['n_ids'], cfg['n_out']
    T_ = []
    for i in range(n_ids):
        meas = []
        for o in range(n_out):
            ts = TIMES[i % len(TIMES)][o]
            if cfg.get('empty_first_output') and o == 0 and i == 0:
                ts = []
            m_ = [(t, B.var('y%d_%d_%d' % (i, o, j)))
                  for j, t in enumerate(ts)]
            if cfg.get('replicates') and m_:
                # replicate assays: the same reading recorded twice, and a
                # second, different reading at the same time
                m_ = [m_[0], m_[0]] + m_[1:] + \
                    [(m_[-1][0], B.var('yrep%d_%d' % (i, o)))]
            meas.append(m_)
        doses = []
        if cfg['model'] == 'pk':
            for j, k in enumerate(cfg['doses'][i % len(cfg['doses'])]):
                t = 0.25 + j + i          # concrete times (shared column)
                d = B.var('dose%d_%d' % (i, j))
                u = B.var('dur%d_%d' % (i, j))
                B.assume(d > 0)
                B.assume(u > 0)
                doses.append((k, t, d, u))
        covs = [B.var('cov%d_%d' % (i, c)) for c in range(cfg.get('n_cov', 0))]
        T_.append(dict(meas=meas, doses=doses, covs=covs))
    return T_


OBS_NAMES = ['Biomarker A', 'Biomarker B']
COV_NAMES = ['Age', 'Weight']


def frame(B, cfg, T_, variant):
    """the long-format data frame of a ground truth, in one of its equivalent
    renderings"""
    import pandas as pd
    labels = cfg['ids']
    if variant.get('int_ids'):
        labels = [int(x) for x in labels]
    dosing = cfg['model'] == 'pk'
    obs_names = OBS_NAMES
    if cfg.get('trivial_map'):
        # observables named like the model outputs: no map needs to be given
        obs_names = user_model(B, cfg).outputs()
    per = []
    for i, tr in enumerate(T_):
        rows = []

        def row(**kw):
            r = dict(ID=labels[i], Time=NAN, Observable=NAN, Value=NAN)
            if dosing:
                r.update(Dose=NAN, Duration=NAN)
            if variant.get('extra_column'):
                r['Comment'] = 'row of %s' % labels[i]
            r.update(kw)
            rows.append(r)
        if not variant.get('cov_rows'):
            for c, v in enumerate(tr['covs']):
                row(Observable=COV_NAMES[c], Value=v,
                    Time=(NAN if (i + c) % 2 else 0.0))
        for (k, t, d, u) in tr['doses']:
            if k == 'D':
                row(Time=t, Dose=d, Duration=u)
            elif k == 'B':
                row(Time=t, Dose=d)
            elif k == 'X':        # no time: not a dose event
                row(Dose=d, Duration=u)
        meas = list(enumerate(tr['meas']))
        if variant.get('outputs_reversed'):
            meas = meas[::-1]     # rows of the last output come first
        for o, ms in meas:
            for j, (t, v) in enumerate(ms):
                row(Time=t, Observable=obs_names[o], Value=v)
                if variant.get('missing') and j == 0:
                    # a measurement without value and one without time
                    row(Time=t + 0.125, Observable=obs_names[o])
                    row(Observable=obs_names[o],
                        Value=B.var('lost%d_%d' % (i, o)))
        if variant.get('junk'):
            row(Time=1.0, Observable='Unrelated', Value=B.var('junk%d' % i))
            row(Time=NAN, Observable='Unrelated', Value=NAN)
        per.append(rows)
    order = variant.get('order', 'blocks')
    if order == 'blocks':
        flat = [r for rows in per for r in rows]
    elif order == 'reversed rows':
        # rows of an individual keep their relative order; the blocks are
        # emitted last individual first, so the order of first appearance
        # (= the order of the IDs) is that of the ground truth only after
        # the harness reorders it
        flat = [r for rows in reversed(per) for r in rows]
    else:   # interleaved
        flat = []
        k = 0
        while any(k < len(rows) for rows in per):
            for rows in per:
                if k < len(rows):
                    flat.append(rows[k])
            k += 1
    if variant.get('cov_rows'):
        # the covariates as a separate block of rows (a demographics table
        # appended to / put in front of the measurements), in an ID order of
        # its own per covariate
        block = []
        n_cov = len(T_[0]['covs'])
        for c in range(n_cov):
            idx = list(range(len(T_)))
            if (c + (variant['cov_rows'] == 'end')) % 2:
                idx = idx[::-1]
            for i in idx:
                r = dict(ID=labels[i], Time=NAN, Observable=COV_NAMES[c],
                         Value=T_[i]['covs'][c])
                if dosing:
                    r.update(Dose=NAN, Duration=NAN)
                if variant.get('extra_column'):
                    r['Comment'] = 'demographics'
                block.append(r)
        flat = flat + block if variant['cov_rows'] == 'end' else block + flat
    cols = ['ID', 'Time', 'Observable', 'Value']
    if dosing:
        cols += ['Dose', 'Duration']
    if variant.get('extra_column'):
        cols = ['Comment'] + cols
    if variant.get('no_duration') and dosing:
        cols.remove('Duration')
    df = pd.DataFrame(flat, columns=cols)
    # the row labels of the frame carry no meaning: a frame that was sorted,
    # filtered or concatenated keeps the labels of its history
    ix = variant.get('index')
    n = len(df)
    if ix == 'reversed':
        df.index = list(range(n))[::-1]
    elif ix == 'rotated':
        df.index = [(k + n // 2) % n for k in range(n)]
    elif ix == 'gaps':
        df.index = [3 * k + 7 for k in range(n)]
    elif ix == 'strings':
        df.index = ['r%d' % ((5 * k) % (n + 1)) for k in range(n)]
    elif ix == 'duplicates':
        df.index = [k // 2 for k in range(n)]
    appearance = []
    for r in flat:
        if str(r['ID']) not in appearance:
            appearance.append(str(r['ID']))
    return df, appearance


# ------------------------------------------------------------------ models
def user_model(B, cfg):
    if cfg['model'] == 'pk':
        m = chi.library.ModelLibrary().one_compartment_pk_model()
        m.set_administration('central', direct=cfg.get('direct', True))
        return m
    return SymMechModel(B, n_params=cfg.get('n_mech', 1),
                        n_outputs=cfg['n_out'])


def error_models(cfg):
    from . import refs
    return [refs.error_model(e) for e in cfg['ems'][:cfg['n_out']]]


def by_hand(B, cfg, T_, appearance, variant):
    """the posterior assembled from the ground truth"""
    labels = [str(x) for x in cfg['ids']]
    lls = []
    for lab in appearance:
        i = labels.index(lab)
        tr = T_[i]
        mm = user_model(B, cfg)
        if cfg['model'] == 'pk':
            prot = fm.Protocol()
            for (k, t, d, u) in tr['doses']:
                if k == 'X':
                    continue
                if k == 'B' or variant.get('no_duration'):
                    u = 0.01
                prot.add(fm.Event(d / u, t, u))
            mm.set_dosing_regimen(prot)
        obs = [[v for (_, v) in ms] for ms in tr['meas']]
        times = [[t for (t, _) in ms] for ms in tr['meas']]
        ll = chi.LogLikelihood(mm, error_models(cfg), obs, times)
        ll.set_id(lab)
        lls.append(ll)
    return lls


# -------------------------------------------------------------------- case
def case_posterior(B, cfg):
    T_ = truth(B, cfg)
    variant = cfg.get('variant', {})
    df, appearance = frame(B, cfg, T_, variant)
    ctrl = chi.ProblemModellingController(user_model(B, cfg),
                                          error_models(cfg))
    units = cfg.get('units')
    n_ids = cfg['n_ids']
    pop = pop_ref = None
    if units:
        pop = hier.make_population(units, n_ids, cfg.get('bare', False))
        pop_ref = hier.make_population(units, n_ids, cfg.get('bare', False))
    kw = {}
    # (the default map applies to one output and one observable only)
    if cfg.get('trivial_map'):
        pass
    elif cfg.get('explicit_map', False) or cfg['n_out'] > 1 or \
            variant.get('junk') or cfg.get('n_cov', 0):
        outs = user_model(B, cfg).outputs()
        pairs = [(o, OBS_NAMES[k]) for k, o in enumerate(outs)]
        if variant.get('map_reversed'):
            pairs = pairs[::-1]     # a dict is a map, whatever its key order
        kw['output_observable_dict'] = dict(pairs)
    n_cov = cfg.get('n_cov', 0)
    if n_cov:
        kw['covariate_dict'] = {nm: COV_NAMES[c] for c, nm in enumerate(
            pop.get_covariate_names())}
    if variant.get('no_duration') and cfg['model'] == 'pk':
        kw['dose_duration_key'] = None
    if variant.get('undosed') and cfg['model'] == 'pk':
        # the dataset carries no dose column at all: nobody is dosed
        df = df.drop(columns=['Dose', 'Duration'])
        kw['dose_key'] = None
        kw['dose_duration_key'] = None
    try:
        if pop is not None and cfg.get('pop_first', True):
            ctrl.set_population_model(pop)
        if cfg.get('earlier_doses'):
            # call history: an earlier (dosed) dataset over the same
            # individuals was set before; the posterior reflects the dataset
            # set last
            cfg0 = dict(cfg, doses=cfg['earlier_doses'])
            df0, _ = frame(B, cfg0, truth(B, cfg0), {})
            ctrl.set_data(df0, **{k: v for k, v in kw.items()
                                  if k not in ('dose_key',
                                               'dose_duration_key')})
        ctrl.set_data(df, **kw)
        if pop is not None and not cfg.get('pop_first', True):
            import warnings
            with warnings.catch_warnings():
                warnings.simplefilter('ignore')
                ctrl.set_population_model(pop)
            if n_cov:
                # documented: a population model whose covariates cannot be
                # matched automatically resets the data; set it again
                ctrl.set_data(df, **kw)
    except Exception as e:
        B.fact('no-exception:set_data / set_population_model', False, repr(e))
        return
    lls = by_hand(B, cfg, T_, appearance, variant)
    fixed = {}
    if cfg.get('fix') is not None:
        names = ctrl.get_parameter_names()
        nm = names[cfg['fix'] % len(names)]
        fixed = {nm: B.var('fixed_value')}
        B.assume(fixed[nm] > 0)
        ctrl.fix_parameters(fixed)
    if cfg.get('fix_seq'):
        # a history of fix / re-fix / release calls on the controller: only
        # the resulting set of name-value pairs counts (C08)
        names = ctrl.get_parameter_names()
        for q, call in enumerate(cfg['fix_seq']):
            d = {}
            for j, what in call:
                nm = names[j % len(names)]
                if what == 'n':
                    d[nm] = None
                    fixed.pop(nm, None)
                else:
                    d[nm] = B.var('fixed_%d_%d' % (q, j))
                    B.assume(d[nm] > 0)
                    fixed[nm] = d[nm]
            try:
                ctrl.fix_parameters(d)
            except Exception as e:
                B.fact('no-exception:fix_parameters call %d' % q, False,
                       repr(e))
                return
        free = [nm for nm in names if nm not in fixed]
        B.fact('names = the free parameters in their original order',
               ctrl.get_parameter_names() == free,
               repr(ctrl.get_parameter_names()))
        B.fact('count = number of free parameters',
               ctrl.get_n_parameters() == len(free),
               repr(ctrl.get_n_parameters()))
    if pop is None:
        _individual(B, cfg, ctrl, lls, appearance, fixed)
    else:
        _hierarchical(B, cfg, ctrl, lls, appearance, pop_ref, T_, fixed)


def _same(B, tag, got, want, x):
    B.fact('%s: number of parameters' % tag,
           got.n_parameters() == want.n_parameters() == len(x),
           '%r vs %r' % (got.n_parameters(), want.n_parameters()))
    if got.n_parameters() != len(x):
        return
    gi, wi = got.get_id(), want.get_id()
    B.fact('%s: IDs of the entries' % tag, gi == wi, '%r vs %r' % (gi, wi))
    xa = ps.arr(B, x)
    try:
        v = got(xa)
    except Exception as e:
        B.fact('%s: no-exception:evaluation' % tag, False, repr(e))
        return
    B.eq('%s: value = posterior assembled by hand' % tag, v, want(xa))
    s, g = got.evaluateS1(xa)
    s2, g2 = want.evaluateS1(xa)
    B.eq('%s: S1 score' % tag, s, s2)
    B.fact('%s: gradient length' % tag, len(g) == len(g2) == len(x))
    if len(g) == len(g2):
        for k in range(len(g)):
            B.eq('%s: gradient[%d]' % (tag, k), g[k], g2[k])


def _individual(B, cfg, ctrl, lls, appearance, fixed):
    n = ctrl.get_n_parameters()
    prior = SymPrior(B, n)
    ctrl.set_log_prior(prior)
    x = [B.var('x%d' % k) for k in range(n)]
    for v in x:
        B.assume(v > 0)
    for k, lab in enumerate(appearance):
        try:
            post = ctrl.get_log_posterior(individual=lab)
        except Exception as e:
            B.fact('no-exception:get_log_posterior(%r)' % lab, False, repr(e))
            continue
        ll = lls[k]
        if fixed:
            # names differ only by the documented output prefix
            names = ll.get_parameter_names()
            full = _full_names(ctrl, cfg, B)
            ll.fix_parameters({names[full.index(cn)]: fixed[cn]
                               for cn in fixed})
        want = chi.LogPosterior(ll, prior)
        _same(B, 'individual %s' % lab, post, want, x)
        B.fact('individual %s: names = controller names' % lab,
               post.get_parameter_names() == ctrl.get_parameter_names(),
               repr(post.get_parameter_names()))
    if len(appearance) > 1:
        first = ctrl.get_log_posterior()
        B.fact('default individual is the first ID of the dataset',
               first.get_id() == appearance[0], repr(first.get_id()))


def _full_names(ctrl, cfg, B):
    c2 = chi.ProblemModellingController(user_model(B, cfg), error_models(cfg))
    return c2.get_parameter_names()


def _hierarchical(B, cfg, ctrl, lls, appearance, pop_ref, T_, fixed):
    labels = [str(x) for x in cfg['ids']]
    n_cov = cfg.get('n_cov', 0)
    covs = None
    if n_cov:
        covs = [[T_[labels.index(lab)]['covs'][c] for c in range(n_cov)]
                for lab in appearance]
    pop_ref.set_dim_names(lls[0].get_parameter_names())
    pop_ref.set_n_ids(len(lls))
    if fixed:
        names = pop_ref.get_parameter_names()
        full = ctrl_names_unfixed(B, cfg, ctrl, names)
        pop_ref = chi.ReducedPopulationModel(pop_ref)
        pop_ref.fix_parameters({names[full.index(cn)]: fixed[cn]
                                for cn in fixed})
    n = ctrl.get_n_parameters()
    prior = SymPrior(B, n)
    try:
        ctrl.set_log_prior(prior)
        post = ctrl.get_log_posterior()
    except Exception as e:
        B.fact('no-exception:get_log_posterior', False, repr(e))
        return
    hl = chi.HierarchicalLogLikelihood(
        lls, pop_ref, covariates=ps.arr(B, covs) if covs else None)
    want = chi.HierarchicalLogPosterior(hl, prior)
    N = want.n_parameters()
    x = [B.var('x%d' % k) for k in range(N)]
    for v in x:
        B.assume(v > 0)
    _same(B, 'hierarchical', post, want, x)
    B.fact('hierarchical: top-level names = controller names',
           post.get_parameter_names(exclude_bottom_level=True) ==
           ctrl.get_parameter_names(),
           repr(ctrl.get_parameter_names()))


def ctrl_names_unfixed(B, cfg, ctrl, ref_names):
    """names of the controller's population parameters before fixing: the
    reference names with the controller's dimension names"""
    pm = ctrl._population_model
    if isinstance(pm, chi.ReducedPopulationModel):
        pm = pm.get_population_model()
    return pm.get_parameter_names()


def case_repopulate(B, cfg):
    """one controller, two population models in a row (covariates in another
    order): the second posterior is the one assembled by hand for the second
    model, whatever was built before"""
    cfg = dict(cfg, model='sym', n_out=1, ems=['Gaussian'], n_cov=2)
    T_ = truth(B, cfg)
    for tr in T_:
        for v in tr['covs']:
            B.assume(v > 0)      # keeps the covariate-shifted scales positive
    variant = cfg.get('variant', {})
    df, appearance = frame(B, cfg, T_, variant)
    ctrl = chi.ProblemModellingController(user_model(B, cfg),
                                          error_models(cfg))

    def pop(order):
        # parameter 0 shifted by one covariate, parameter 1 by the other
        a = chi.CovariatePopulationModel(
            chi.GaussianModel(), chi.LinearCovariateModel(n_cov=1))
        b = chi.CovariatePopulationModel(
            chi.LogNormalModel(), chi.LinearCovariateModel(n_cov=1))
        a.set_covariate_names([COV_NAMES[order[0]]])
        b.set_covariate_names([COV_NAMES[order[1]]])
        return chi.ComposedPopulationModel([a, b])
    orders = cfg['orders']
    kw = {'output_observable_dict': {
        user_model(B, cfg).outputs()[0]: OBS_NAMES[0]}}
    ctrl.set_population_model(pop(orders[0]))
    ctrl.set_data(df, **kw)
    labels = [str(x) for x in cfg['ids']]
    for step, order in enumerate(orders):
        if step:
            ctrl.set_population_model(pop(order))
        n = ctrl.get_n_parameters()
        prior = SymPrior(B, n, tag='P%d' % step)
        ctrl.set_log_prior(prior)
        post = ctrl.get_log_posterior()
        lls = by_hand(B, cfg, T_, appearance, variant)
        ref_pop = pop(order)
        ref_pop.set_dim_names(lls[0].get_parameter_names())
        ref_pop.set_n_ids(len(lls))
        covs = [[T_[labels.index(lab)]['covs'][c] for c in order]
                for lab in appearance]
        want = chi.HierarchicalLogPosterior(chi.HierarchicalLogLikelihood(
            lls, ref_pop, covariates=ps.arr(B, covs)), prior)
        x = [B.var('x%d' % k) for k in range(want.n_parameters())]
        for v in x:
            B.assume(v > 0)
        _same(B, 'population model %d (covariates %r)' % (
            step + 1, [COV_NAMES[c] for c in order]), post, want, x)


# -------------------------------------------------------------------- jobs
VARIANTS = [
    {},
    {'map_reversed': True, 'cov_rows': 'end'},
    {'cov_rows': 'top', 'order': 'interleaved', 'map_reversed': True},
    {'order': 'interleaved'},
    {'order': 'reversed rows'},
    {'junk': True, 'extra_column': True},
    {'missing': True},
    {'int_ids': True, 'order': 'interleaved', 'junk': True},
    {'missing': True, 'junk': True, 'order': 'reversed rows',
     'int_ids': True, 'extra_column': True},
    {'index': 'reversed'},
    {'index': 'rotated', 'order': 'interleaved', 'junk': True},
    {'index': 'gaps', 'cov_rows': 'end', 'missing': True},
    {'index': 'strings', 'order': 'reversed rows', 'int_ids': True},
    {'index': 'duplicates', 'order': 'interleaved', 'cov_rows': 'top'},
]


def jobs(tier):
    out = []
    q = tier == 'quick'
    U = hier.unit
    ids3 = ['10', '9', '1']
    # individual posteriors over the uninterpreted model
    for n_out, ems in ((1, ['Gaussian']),
                       (2, ['ConstantAndMultiplicative', 'LogNormal'])):
        for n_ids in (1, 2, 3):
            for v in VARIANTS:
                out.append(('posterior', 'case_posterior', dict(
                    model='sym', n_out=n_out, ems=ems, n_ids=n_ids,
                    ids=ids3[:n_ids], variant=v), FACADE))
    out.append(('posterior', 'case_posterior', dict(
        model='sym', n_out=2, ems=['Gaussian', 'Multiplicative'], n_ids=2,
        ids=['b', 'a'], empty_first_output=True, variant={}), FACADE))
    # observables named like the outputs and no map given (documented
    # default: each output is measured by the observable of its name)
    for v in ({}, {'outputs_reversed': True},
              {'outputs_reversed': True, 'order': 'interleaved', 'junk': True},
              {'outputs_reversed': True, 'order': 'reversed rows',
               'missing': True}):
        out.append(('posterior', 'case_posterior', dict(
            model='sym', n_out=2, ems=['Gaussian', 'LogNormal'], n_ids=2,
            ids=['b', 'a'], trivial_map=True, variant=v), FACADE))
        out.append(('posterior', 'case_posterior', dict(
            model='sym', n_out=2, ems=['Gaussian', 'LogNormal'], n_ids=3,
            ids=ids3, trivial_map=True,
            units=[U('gaussian'), U('pooled'), U('lognormal')], variant=v),
            FACADE))
    out.append(('posterior', 'case_posterior', dict(
        model='sym', n_out=1, ems=['Gaussian'], n_ids=2, ids=['b', 'a'],
        trivial_map=True, variant={'junk': True}), FACADE))
    for v in ({}, {'order': 'interleaved', 'junk': True}):
        out.append(('posterior', 'case_posterior', dict(
            model='sym', n_out=2, ems=['Gaussian', 'LogNormal'], n_ids=2,
            ids=['b', 'a'], replicates=True, variant=v), FACADE))
        out.append(('posterior', 'case_posterior', dict(
            model='sym', n_out=1, ems=['Gaussian'], n_ids=3, ids=ids3,
            replicates=True, units=[U('gaussian'), U('pooled')], variant=v),
            FACADE))
    for fix in (0, 1, 2):
        out.append(('posterior', 'case_posterior', dict(
            model='sym', n_out=2, ems=['Gaussian', 'ConstantAndMultiplicative'],
            n_ids=2, ids=['b', 'a'], fix=fix,
            variant={'order': 'interleaved'}), FACADE))
    # dosed model: per-individual regimens
    dose_sets = [[['D'], ['B', 'D']], [['B', 'X'], []], [['D', 'D'], ['X']]]
    for k, doses in enumerate(dose_sets):
        for v in (VARIANTS if not q else VARIANTS[::2] + [
                {'no_duration': True}]):
            out.append(('posterior', 'case_posterior', dict(
                model='pk', n_out=1, ems=['Gaussian'], n_ids=2,
                ids=['7', '3'], doses=doses, direct=(k % 2 == 0),
                variant=v), FACADE))
    # call histories: an earlier dosed dataset on the same controller
    for k, (doses, earlier, v) in enumerate((
            ([[], []], [['D'], ['B', 'D']], {'undosed': True}),
            ([[], []], [['B'], ['D']], {'undosed': True,
                                        'order': 'interleaved'}),
            ([['D'], []], [['B', 'D'], ['D']], {}),
            ([['B'], ['D', 'D']], [['D'], ['B']], {'no_duration': True}))):
        out.append(('posterior', 'case_posterior', dict(
            model='pk', n_out=1, ems=['Gaussian'], n_ids=2,
            ids=['7', '3'], doses=doses, earlier_doses=earlier,
            direct=(k % 2 == 0), variant=v), FACADE))
    # hierarchical posteriors
    comps = [[U('gaussian'), U('pooled')], [U('lognormal_nc'), U('hetero')],
             [U('pooled'), U('gaussian_nc')], [U('gaussian', 2)],
             [U('gaussian', 1, 1), U('pooled')],
             [U('lognormal', 1, 2), U('gaussian')],
             [U('pooled', 1, 1), U('lognormal')]]
    for k, c in enumerate(comps):
        n_cov = sum(u['cov'] for u in c)
        for j, v in enumerate(VARIANTS):
            if q and (j + k) % 2:
                continue
            out.append(('posterior', 'case_posterior', dict(
                model='sym', n_out=1, ems=['Gaussian'], n_ids=3 if k % 2 else 2,
                ids=ids3[:3 if k % 2 else 2], units=c, n_cov=n_cov,
                pop_first=(j % 2 == 0), variant=v), FACADE))
    for fix in (0, 1, 3):
        out.append(('posterior', 'case_posterior', dict(
            model='sym', n_out=1, ems=['Gaussian'], n_ids=2, ids=['b', 'a'],
            units=comps[0], fix=fix, variant={'order': 'interleaved'}),
            FACADE))
    # histories of fix / re-fix / release calls on the controller
    seqs = [[[(0, 'v')], [(3, 'v')]], [[(3, 'v')], [(0, 'v')]],
            [[(0, 'v'), (3, 'v')], [(0, 'n')]], [[(1, 'v')], [(1, 'v')]],
            [[(2, 'v')], [(2, 'n')]], [[(0, 'v')], [(2, 'v')], [(0, 'n')]],
            [[(1, 'v'), (2, 'v')], [(3, 'v'), (1, 'n')]],
            [[(0, 'v')], [(1, 'v')], [(3, 'v')]]]
    for k, seq in enumerate(seqs):
        out.append(('posterior', 'case_posterior', dict(
            model='sym', n_out=2, ems=['Gaussian', 'ConstantAndMultiplicative'],
            n_ids=2, ids=['b', 'a'], fix_seq=seq,
            variant={'order': 'interleaved'} if k % 2 else {}), FACADE))
        out.append(('posterior', 'case_posterior', dict(
            model='sym', n_out=1, ems=['Gaussian'], n_ids=2, ids=['b', 'a'],
            units=comps[k % 3], fix_seq=seq,
            variant={'order': 'interleaved'} if k % 2 else {}), FACADE))
    for orders in ([[0, 1], [1, 0]], [[1, 0], [0, 1], [1, 0]]):
        for v in ({}, {'order': 'interleaved', 'cov_rows': 'end'}):
            out.append(('repopulate', 'case_repopulate', dict(
                n_ids=3, ids=ids3, orders=orders, variant=v), FACADE))
    # dosed + hierarchical + covariates
    out.append(('posterior', 'case_posterior', dict(
        model='pk', n_out=1, ems=['Gaussian'], n_ids=2, ids=['7', '3'],
        doses=[['D'], ['B', 'D']],
        units=[U('gaussian', 2), U('pooled'), U('lognormal', 1, 1)], n_cov=1,
        variant={'order': 'interleaved', 'junk': True}), FACADE))
    return out


BOUNDS = dict(
    quick='1-3 individuals with unbalanced sampling times (0-3 measurements '
          'per output), 1-2 outputs, 14 renderings of every dataset (row '
          'order: blocks / interleaved / reversed; unrelated observable rows '
          'and an extra column; rows with missing value or missing time; '
          'string or integer IDs that do not sort like their order of '
          'appearance; row labels of the frame reversed / rotated / with gaps '
          '/ strings / duplicated; the output-observable map in reversed key '
          'order, or no map and observables named like the outputs (their '
          'rows in another order than the outputs); the '
          'covariates as a separate block of rows in another ID order); '
          'replicate measurements (the same reading twice, two readings at '
          'one time); dosed model with 3 sets of per-individual dose rows '
          '(plus 4 histories: an earlier dosed dataset set first, the last '
          'one undosed / dosed differently) '
          '(with duration, bolus, without time, none) incl. no duration '
          'column; 7 population models (pooled, heterogeneous, non-centred, '
          'multi-dimensional, 1-2 covariates) set before or after the data; '
          'fixed parameters at 3 positions and 8 histories of fix / re-fix / '
          'release calls (individual and hierarchical); two to three '
          'population models '
          'in a row on one controller (covariates in another order); '
          'symbolic values, doses, '
          'durations, covariates and parameters',
    thorough='every rendering for every population model',
    outside='measurement and dose *times* are concrete (distinct values); '
            'string-typed numbers in the numeric columns; larger datasets; '
            'get_predictive_model; the likelihood classes themselves are '
            'the reference here (decided by C01-C03)')
TRUSTED = ['pandas (real; object columns)', 'pd.to_numeric facade',
           'myokit stub', 'chi.LogLikelihood / HierarchicalLogLikelihood / '
           'posteriors as the hand-assembly vocabulary (C01-C03)', 'z3']
