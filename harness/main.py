"""
./check <ID> [--tier quick|thorough] [--replay file] [--jobs N] [--only case]

Exit codes: 0 held (known findings printed), 1 violation (VIOLATION line),
3 harness error.
"""
import argparse
import importlib
import json
import os
import re
import sys
import time
import warnings

warnings.simplefilter('ignore')

ROOT = os.path.dirname(os.path.dirname(os.path.abspath(__file__)))
sys.path.insert(0, ROOT)

from chisym import harness as H  # noqa: E402

MODULES = {
    'C01': 'harness.c01',
    'C02': 'harness.c02',
    'C03': 'harness.c03',
    'C04': 'harness.c04',
    'C05': 'harness.c05',
    'C06': 'harness.c06',
    'C07': 'harness.c07',
    'C08': 'harness.c08',
    'C09': 'harness.c09',
    'C10': 'harness.c10',
    'C11': 'harness.c11',
    'C12': 'harness.c12',
    'C13': 'harness.c13',
    'C14': 'harness.c14',
    'C15': 'harness.c15',
    'C16': 'harness.c16',
    'C17': 'harness.c17',
    'C18': 'harness.c18',
    'C19': 'harness.c19',
    'C20': 'harness.c20',
}


def load_known():
    path = os.path.join(ROOT, 'known_findings.json')
    if not os.path.exists(path):
        return []
    with open(path) as f:
        return json.load(f).get('findings', [])


def match_known(known, pid, case, cfg, label):
    for k in known:
        if k.get('status') != 'known':
            continue
        if k['property'] != pid or k['case'] != case:
            continue
        if any((cfg.get(a) not in b) if isinstance(b, list) and not isinstance(
                cfg.get(a), list) else cfg.get(a) != b
               for a, b in k.get('cfg', {}).items()):
            continue
        if not re.search(k.get('label', '.*'), label):
            continue
        if 'cfg_regex' in k and not re.search(k['cfg_regex'], repr(cfg)):
            continue
        return k
    return None


def _jsonable(x):
    try:
        json.dumps(x)
        return x
    except TypeError:
        if isinstance(x, dict):
            return {str(k): _jsonable(v) for k, v in x.items()}
        if isinstance(x, (list, tuple)):
            return [_jsonable(v) for v in x]
        return repr(x)


def replay(pid, path):
    with open(path) as f:
        r = json.load(f)
    if r.get('crosshair'):
        from harness import c17
        return c17.replay(path)
    mod = importlib.import_module(r['module'])
    fn = getattr(mod, r['function'])
    try:
        B = H.concrete_run(fn, r['cfg'], r['env'], r.get('opts', {}))
        f = H._concrete_label_fails(B, r['label'])
    except H.Skip:
        print('replay point violates an assumption of the case')
        return 0
    except Exception as e:
        f = (r['label'].startswith('no-exception') or 'raises' in r['label'],
             'raised %r' % (e,))
    if f is None:
        print('obligation %s not produced at the replay point' % r['label'])
        return 0
    if f[0]:
        print('replay: %s fails on the real float code: %s' % (
            r['label'], f[1]))
        print('VIOLATION property=%s replay=%s' % (pid, path))
        return 1
    print('replay: %s holds at the replay point (%s)' % (r['label'], f[1]))
    return 0


def main(argv=None):
    ap = argparse.ArgumentParser()
    ap.add_argument('pid')
    ap.add_argument('--tier', default=os.environ.get('VERIF_TIER', 'quick'))
    ap.add_argument('--replay')
    ap.add_argument('--jobs', type=int, default=0)
    ap.add_argument('--only')
    ap.add_argument('--limit', type=int, default=0)
    ap.add_argument('--no-evidence', action='store_true')
    a = ap.parse_args(argv)
    pid = a.pid.upper()
    if a.tier not in ('quick', 'thorough'):
        a.tier = 'quick'
    if pid not in MODULES:
        print('no check registered for %s' % pid)
        return H.HARNESS_ERROR
    if a.replay:
        return replay(pid, a.replay)
    t0 = time.time()
    seed = int(os.environ.get('VERIF_SEED', '0') or 0)
    modname = MODULES[pid]
    mod = importlib.import_module(modname)
    if hasattr(mod, 'run'):
        return mod.run(a, pid, seed)   # properties with their own driver
    raw = mod.jobs(a.tier)
    if a.only:
        raw = [j for j in raw if j[0] == a.only]
    if a.limit:
        raw = raw[:a.limit]
    jobs = []
    seen_case = set()
    for case, fname, cfg, opts in raw:
        opts = dict(opts)
        opts.setdefault('timeout_ms', 60000 if a.tier == 'quick' else 300000)
        opts.setdefault('job_timeout_s', 600 if a.tier == 'quick' else 900)
        if case not in seen_case:
            seen_case.add(case)
            opts['profile'] = True
        jobs.append((case, modname, fname, cfg, opts))
    import shutil
    import tempfile
    tmp = tempfile.mkdtemp(prefix='chiverif_')
    os.environ['CHIVERIF_TMP'] = tmp
    try:
        results = H.run_all(jobs, a.jobs or None)
    finally:
        shutil.rmtree(tmp, ignore_errors=True)
    return finish(pid, a, mod, jobs, results, seed, t0)


def finish(pid, a, mod, jobs, results, seed, t0, extra=None):
    known = load_known()
    n_obl = n_dis = n_non = n_triv = n_ident = 0
    viol = []
    known_hits = {}
    incon = []
    errors = []
    functions = set()
    solver = dict(queries=0, sat=0, unsat=0, unknown=0, solver_seconds=0.0,
                  max_query_seconds=0.0)
    paths = feas = twins = twins_ok = diffs = canon_checks = 0
    samples = []
    per_case = {}
    for (case, modname, fname, cfg, opts), r in zip(jobs, results):
        n_obl += r.obligations
        n_dis += r.discharged
        n_non += r.nontrivial
        n_triv += r.trivial
        n_ident += getattr(r, 'identical', 0)
        paths += r.paths
        feas += r.feasibility
        twins += r.twins
        twins_ok += r.twins_ok
        diffs += r.diffchecks
        canon_checks += getattr(r, 'canon_checks', 0)
        functions.update(r.functions)
        pc = per_case.setdefault(case, dict(configs=0, obligations=0,
                                            discharged=0, paths=0,
                                            seconds=0.0))
        pc['configs'] += 1
        pc['obligations'] += r.obligations
        pc['discharged'] += r.discharged
        pc['paths'] += r.paths
        pc['seconds'] = round(pc['seconds'] + r.seconds, 2)
        for k in ('queries', 'sat', 'unsat', 'unknown',
                  'linear_stage_queries', 'linear_stage_unsat',
                  'residual_identically_zero'):
            solver[k] = solver.get(k, 0) + r.solver.get(k, 0)
        solver['solver_seconds'] = round(
            solver['solver_seconds'] + r.solver.get('solver_seconds', 0), 3)
        solver['max_query_seconds'] = max(
            solver['max_query_seconds'], r.solver.get('max_query_seconds', 0))
        for e in r.errors:
            errors.append((case, cfg, e))
        for lab, why in r.inconclusive:
            incon.append((case, cfg, lab, why))
        for v in r.violations:
            k = match_known(known, pid, case, cfg, v['label'])
            if k is not None:
                known_hits.setdefault(k['id'], (k, []))[1].append(
                    (cfg, v['label']))
                continue
            viol.append((case, modname, fname, cfg, v))
        if len(samples) < 6 and r.samples:
            s = dict(r.samples[0])
            s['case'] = case
            s['cfg'] = _jsonable(cfg)
            samples.append(s)

    jobs_opts = {(j[0], repr(j[3])): j[4].get('facade', {}) for j in jobs}
    os.makedirs(os.path.join(ROOT, 'replays'), exist_ok=True)
    for k, (entry, hits) in sorted(known_hits.items()):
        print('KNOWN-FINDING: property=%s %s [%d obligation(s), e.g. %s %s]'
              % (pid, entry['what'], len(hits), hits[0][0], hits[0][1]))
    rc = 0
    for i, (case, modname, fname, cfg, v) in enumerate(viol):
        path = os.path.join(ROOT, 'replays', '%s-%d.json' % (pid, i))
        with open(path, 'w') as f:
            json.dump(dict(property=pid, case=case, module=modname,
                           function=fname, cfg=_jsonable(cfg),
                           env=v['env'], label=v['label'],
                           detail=v['detail'], outcome=v['outcome'],
                           opts=dict(facade=_jsonable(jobs_opts.get((case, repr(cfg)), {}))),
                           path=v['path']), f, indent=1)
        if i < 25:
            print('violation: case=%s cfg=%s obligation=%s: %s (%s)' % (
                case, cfg, v['label'], v['detail'], v['outcome']))
            print('VIOLATION property=%s replay=%s' % (pid, path))
        rc = 1
    if len(viol) > 25:
        print('... %d further violations (replay files written)' % (
            len(viol) - 25))
    for case, cfg, lab, why in incon[:20]:
        print('INCONCLUSIVE case=%s cfg=%s obligation=%s: %s' % (
            case, cfg, lab, why))
    if len(incon) > 20:
        print('... %d further inconclusive obligations' % (len(incon) - 20))
    for case, cfg, e in errors[:10]:
        print('HARNESS-ERROR case=%s cfg=%s: %s' % (case, cfg, e))
    if errors and rc == 0:
        rc = H.HARNESS_ERROR
    if twins and twins_ok != twins and rc == 0:
        rc = H.HARNESS_ERROR

    wall = time.time() - t0
    bounds = getattr(mod, 'BOUNDS', {})
    ev = dict(
        property_id=pid, tier=a.tier, seed=seed, level='other',
        coverage=dict(
            explanation=getattr(mod, 'EXPLANATION', ''),
            obligations=n_obl, discharged=n_dis,
            inconclusive=len(incon),
            evaluations=n_obl, distinct_nontrivial=n_non,
            rule='one obligation = one equality/condition per configuration '
                 'and path; non-trivial = the two sides are syntactically '
                 'different terms containing symbolic variables and the '
                 'verdict came from the SMT solver (counted); trivial = '
                 'decided concretely (shapes, -inf, identical terms)',
            trivial=n_triv,
            symbolic_sides_identical_terms=n_ident,
            configurations=len(jobs), paths=paths,
            feasibility_queries=feas, solver=solver,
            vacuity_twins=dict(run=twins, refuted_as_required=twins_ok),
            differential_float_checks=diffs,
            canonical_stage_validations=canon_checks,
            checker_cmd='./check %s --tier %s' % (pid, a.tier),
            trusted_base=getattr(mod, 'TRUSTED', []),
            functions_encoded=sorted(functions),
            bounds=bounds.get(a.tier, ''), outside_bounds=bounds.get(
                'outside', ''),
            per_case=per_case,
            known_findings=[k for k in sorted(known_hits)],
            exhaustive=not incon and not errors,
            samples=samples or [dict(note='no solver obligations')],
        ),
        assumptions=getattr(mod, 'ASSUMPTIONS', []) + [
            'identities are over the reals, not floats',
            'documented supports assumed (positive scales etc.)'],
        wall_s=round(wall, 2), violations=len(viol))
    if extra:
        ev['coverage'].update(extra)
    if not a.no_evidence and not a.only and not a.limit:
        os.makedirs(os.path.join(ROOT, 'evidence'), exist_ok=True)
        with open(os.path.join(ROOT, 'evidence', '%s.json' % pid), 'w') as f:
            json.dump(_jsonable(ev), f, indent=1)
    print('%s %s: %d configurations, %d paths, %d obligations, %d discharged '
          '(%d by solver), %d inconclusive, %d violations, %d known; '
          '%d solver queries, %.1fs solver, %.1fs wall' % (
              pid, a.tier, len(jobs), paths, n_obl, n_dis, n_non, len(incon),
              len(viol), len(known_hits), solver['queries'],
              solver['solver_seconds'], wall))
    return rc


if __name__ == '__main__':
    # exit 1 is reserved for reported violations: anything that goes wrong
    # inside the machinery itself (I/O, a crashed worker, ...) is a harness
    # error
    try:
        rc = main()
    except SystemExit as e:
        rc = e.code if e.code in (0, 1, H.HARNESS_ERROR) else H.HARNESS_ERROR
    except BaseException:
        import traceback
        traceback.print_exc()
        print('HARNESS-ERROR uncaught exception in the check driver')
        rc = H.HARNESS_ERROR
    sys.stdout.flush()
    sys.exit(rc)
