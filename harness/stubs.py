"""
Stubs handed to chi through its public extension points (no facade needed):
an uninterpreted mechanistic model and an uninterpreted prior.
"""
import copy

import numpy as np
import pints

import chi


def _tkey(t):
    return repr(round(float(t), 9))


class SymMechModel(chi.MechanisticModel):
    """simulate(psi, times)[o, k] = Y[name_o|t_k](psi) : an uninterpreted
    solution functional keyed by output name and time value; sensitivities are
    its declared partials D<j>:Y[...]."""

    def __init__(self, B, n_params=2, n_outputs=1, tag='Y'):
        super(SymMechModel, self).__init__()
        self.B = B
        self.tag = tag
        self._params = ['p%d' % i for i in range(n_params)]
        self._all_outputs = ['out%d' % i for i in range(n_outputs)]
        self._outputs = list(self._all_outputs)
        self._output_names = list(self._all_outputs)
        self._sens = False
        self._sens_idx = None
        self.calls = []

    def __deepcopy__(self, memo):
        new = copy.copy(self)
        new._params = list(self._params)
        new._outputs = list(self._outputs)
        new._output_names = list(self._output_names)
        new.calls = []
        return new

    def copy(self):
        return copy.deepcopy(self)

    def enable_sensitivities(self, enabled, parameter_names=None):
        self._sens = bool(enabled)
        self.calls.append(('enable_sensitivities', bool(enabled)))
        if parameter_names is None or not enabled:
            self._sens_idx = None
        else:
            self._sens_idx = [self._params.index(str(n))
                              for n in parameter_names]

    def has_sensitivities(self):
        return self._sens

    def n_outputs(self):
        return len(self._outputs)

    def n_parameters(self):
        return len(self._params)

    def outputs(self):
        return list(self._output_names)

    def parameters(self):
        return list(self._params)

    def set_outputs(self, outputs):
        for o in outputs:
            if o not in self._all_outputs:
                raise KeyError(o)
        self._outputs = list(outputs)
        self._output_names = list(outputs)

    def set_parameter_names(self, names):
        self._params = [names.get(p, p) for p in self._params]

    def set_output_names(self, names):
        self._output_names = [names.get(o, o) for o in self._output_names]

    def sym_output(self, o, t, psi):
        """The term standing for output o (original name) at time t."""
        return self.B.uf('%s[%s|%s]' % (self.tag, o, _tkey(t)), *psi)

    def simulate(self, parameters, times):
        psi = list(parameters)
        if len(psi) != len(self._params):
            raise ValueError('wrong number of mechanistic parameters')
        self.calls.append(('simulate', self._sens, len(times)))
        dt = object if self.B.symbolic else float
        out = np.empty((len(self._outputs), len(times)), dtype=dt)
        for i, o in enumerate(self._outputs):
            for k, t in enumerate(times):
                out[i, k] = self.sym_output(o, t, psi)
        if not self._sens:
            return out
        idx = self._sens_idx if self._sens_idx is not None \
            else list(range(len(psi)))
        sens = np.empty((len(times), len(self._outputs), len(idx)), dtype=dt)
        for i, o in enumerate(self._outputs):
            for k, t in enumerate(times):
                for q, j in enumerate(idx):
                    sens[k, i, q] = self.B.uf(
                        'D%d:%s[%s|%s]' % (j, self.tag, o, _tkey(t)), *psi)
        return out, sens


class SymPrior(pints.LogPrior):
    """log-prior P(theta) and its declared partials."""

    def __init__(self, B, n, tag='P'):
        self.B = B
        self._n = n
        self.tag = tag
        self._draws = 0

    def n_parameters(self):
        return self._n

    def __call__(self, x):
        return self.B.uf(self.tag, *list(x))

    def evaluateS1(self, x):
        x = list(x)
        dt = object if self.B.symbolic else float
        g = np.empty(self._n, dtype=dt)
        for j in range(self._n):
            g[j] = self.B.uf('D%d:%s' % (j, self.tag), *x)
        return self.B.uf(self.tag, *x), g

    def sample(self, n=1):
        dt = object if self.B.symbolic else float
        out = np.empty((n, self._n), dtype=dt)
        for i in range(n):
            for j in range(self._n):
                out[i, j] = self.B.var(
                    'prior_draw%d_%d_%d' % (self._draws, i, j))
        self._draws += 1
        return out
