"""C18 - inference I/O keeps parameters, individuals and draws aligned."""
import numpy as np
import pints
import xarray as xr

import chi

from chisym import terms as T
from chisym.sym import Sym

from . import c02, c06, c13, c15, hier
from . import popspec as ps
from .stubs import SymMechModel, SymPrior

EXPLANATION = (
    '(a) sample_initial_parameters of LogPosterior, HierarchicalLogPosterior '
    'and PopulationFilterLogPosterior is run with a prior stub (fresh '
    'symbols per draw) and the RNG stub over the population compositions of '
    'C02/C13: shape = (n, n_parameters); the entries published as '
    'population-level are the prior draw of that row; every entry published '
    'as (individual, dimension) has the population model\'s law at the '
    'population values of the same row; chi\'s own population log-density '
    'at the initial point has no feasible -inf path.  (b) '
    'SamplingController._format_chains is run on a symbolic chain array: '
    'every name occurs once, population-level variables equal c[:,:,k] of '
    'their position and individual-level ones c[:,:,k(name, individual)]; '
    'reading the dataset back with _format_posterior, PosteriorPredictiveModel '
    'and compute_pointwise_loglikelihood selects the same columns.')

F = {'max_paths': 300, 'diffcheck': False, 'replay_candidates': 1,
     'facts_final': True, 'confirm_by_terms': True}


class DrawPrior(pints.LogPrior):
    """sample(n) returns fresh symbols; scales are kept positive"""

    def __init__(self, B, n, positive=(), on_row=None):
        self.B, self._n, self._pos = B, n, positive
        self.draws = []
        self.on_row = on_row

    def n_parameters(self):
        return self._n

    def __call__(self, x):
        return 0.0

    def sample(self, n=1):
        out = np.empty((n, self._n), dtype=object)
        for i in range(n):
            for j in range(self._n):
                v = self.B.var('prior[%d|%d|%d]' % (len(self.draws), i, j))
                if j in self._pos:
                    self.B.assume(v > 0)
                out[i, j] = v
            if self.on_row is not None:
                self.on_row(list(out[i]))
        self.draws.append(out)
        return out


def _positive_idx(names):
    return tuple(i for i, n in enumerate(names) if n.startswith(
        ('Std.', 'Log std.', 'Sigma')))


def shifted_scales_positive(B, H, top_names):
    """support assumption for covariate models: sigma + beta . chi_i > 0"""
    def on_row(row):
        val = dict(zip(top_names, row))
        covs = H['covs']
        if not covs:
            return
        dim = 0
        cov0 = 0
        for u in H['units']:
            for d in range(u['n_dim']):
                dn = H['ll_names'][dim]
                dim += 1
                if u['cov'] and u['kind'] in hier.ROLES and \
                        u['kind'] != 'pooled':
                    r1 = hier.ROLES[u['kind']][1]
                    for i in range(len(covs)):
                        sg = val['%s %s' % (r1, dn)]
                        for c in range(u['cov']):
                            sg = sg + val['%s %s Cov. %d' % (r1, dn, c + 1)] \
                                * covs[i][cov0 + c]
                        B.assume(sg > 0)
            cov0 += u['cov']
    return on_row


def check_bottom(B, H, row, names, ids, uniq, n_bottom_first=True):
    """law of every individual-level entry given the row's own top values"""
    units, n_ids = H['units'], H['n_ids']
    ll_names = H['ll_names']
    val = {(ids[k], names[k]): row[k] for k in range(len(row))}
    covs = H['covs']
    dim = 0
    cov0 = 0
    seen = set()
    for u in units:
        kind = u['kind']
        for d in range(u['n_dim']):
            dn = ll_names[dim]
            dim += 1
            if ps.is_delta(kind):
                for i in range(n_ids):
                    B.fact('no individual-level entry for special dim %s'
                           % dn, (uniq[i], dn) not in val)
                continue
            r0, r1 = hier.ROLES[kind]
            for i in range(n_ids):
                key = (uniq[i], dn)
                label = 'entry (%s, %s)' % key
                if key not in val:
                    B.fact('%s exists' % label, False, repr(sorted(
                        k for k in val if k[0] is not None)))
                    continue
                fx = H.get('fixed', {})
                mu = fx.get('%s %s' % (r0, dn),
                            val.get((None, '%s %s' % (r0, dn))))
                sg = fx.get('%s %s' % (r1, dn),
                            val.get((None, '%s %s' % (r1, dn))))
                if mu is None or sg is None:
                    B.fact('%s: population entries named' % label, False)
                    continue
                for c in range(u['cov']):
                    cn = 'Cov. %d' % (c + 1)
                    x = covs[i][cov0 + c]
                    mu = mu + val[(None, '%s %s %s' % (r0, dn, cn))] * x
                    sg = sg + val[(None, '%s %s %s' % (r1, dn, cn))] * x
                a = Sym.lift(val[key])
                if ps.is_nc(kind):
                    m0, V, nm = c06.affine_law(B, a, label)
                    B.eq('%s: eta ~ N(0, 1): mean' % label, m0, 0)
                    B.eq('%s: eta ~ N(0, 1): variance' % label, V, 1)
                elif kind == 'gaussian':
                    m0, V, nm = c06.affine_law(B, a, label)
                    B.eq('%s: mean at the row\'s population values' % label,
                         m0, mu)
                    B.eq('%s: variance at the row\'s population values'
                         % label, V, sg * sg)
                elif kind == 'lognormal':
                    m0, V, nm = c06.affine_law(B, B.log(a), label)
                    B.eq('%s: log-mean' % label, m0, mu)
                    B.eq('%s: log-variance' % label, V, sg * sg)
                else:
                    nm = c06.eps_of(a)
                    B.fact('%s: truncated draw' % label, len(nm) == 1 and
                           nm[0].startswith('tz['))
                B.fact('%s: own noise' % label, not (set(nm) & seen),
                       repr(nm))
                seen |= set(nm)
        cov0 += u['cov']


def case_init_hier(B, cfg):
    if not B.symbolic:
        return
    try:
        H = hier.build(B, cfg)
    except Exception as e:
        B.fact('no-exception:construction', False, repr(e))
        return
    hl = H['hl']
    for name, v in H['fixed'].items():
        if name.startswith(('Std.', 'Log std.', 'Sigma')):
            B.assume(v > 0)
    n_top = hl.n_parameters(exclude_bottom_level=True)
    top_names = hl.get_parameter_names(exclude_bottom_level=True)
    prior = DrawPrior(B, n_top, _positive_idx(top_names),
                      shifted_scales_positive(B, H, top_names))
    post = chi.HierarchicalLogPosterior(hl, prior)
    rng = B.new_rng()
    n = cfg.get('n', 2)
    try:
        init = post.sample_initial_parameters(n_samples=n, seed=3)
    except Exception as e:
        B.fact('no-exception:sample_initial_parameters', False, repr(e))
        return
    rng.assume_truncation(B)
    N = post.n_parameters()
    B.fact('shape = (n, n_parameters)', np.shape(init) == (n, N),
           repr(np.shape(init)))
    if np.shape(init) != (n, N):
        return
    names = post.get_parameter_names()
    ids = post.get_id()
    uniq = post.get_id(unique=True)
    n_bottom = N - n_top
    for r in range(n):
        row = list(init[r])
        for k in range(n_top):
            B.eq('row %d: top entry %d = prior draw' % (r, k),
                 row[n_bottom + k], prior.draws[0][r][k])
        # support for covariate-shifted scales
        val = {(ids[k], names[k]): row[k] for k in range(N)}
        check_bottom(B, H, row, names, ids, uniq)
    # finite population contribution at the initial point
    pop = H['pop']
    x = ps.arr(B, list(init[0]))
    bottom = pop.compute_individual_parameters(
        parameters=x[n_bottom:], eta=x[:n_bottom], covariates=ps.arr(
            B, H['covs']) if H['covs'] else None, return_eta=True)
    score = pop.compute_log_likelihood(
        x[n_bottom:], bottom, covariates=ps.arr(B, H['covs'])
        if H['covs'] else None)
    B.fact('population log-density is finite at the initial point',
           isinstance(score, (Sym, int)) or (isinstance(score, float)
                                             and np.isfinite(score)),
           repr(score))


def case_init_filter(B, cfg):
    if not B.symbolic:
        return
    try:
        H = c13.build(B, cfg)
    except Exception as e:
        B.fact('no-exception:construction', False, repr(e))
        return
    post = H['post']
    top_names = post.get_parameter_names(exclude_bottom_level=True)
    prior = DrawPrior(B, H['n_top'], _positive_idx(top_names),
                      shifted_scales_positive(B, H, top_names))
    post._log_prior = prior
    rng = B.new_rng()
    n = 2
    try:
        init = post.sample_initial_parameters(n_samples=n, seed=3)
    except Exception as e:
        B.fact('no-exception:sample_initial_parameters', False, repr(e))
        return
    N = post.n_parameters()
    B.fact('shape = (n, n_parameters)', np.shape(init) == (n, N),
           repr(np.shape(init)))
    if np.shape(init) != (n, N):
        return
    names = post.get_parameter_names()
    ids = post.get_id()
    uniq = post.get_id(unique=True)
    n_top = H['n_top']
    for r in range(n):
        row = list(init[r])
        for k in range(n_top):
            B.eq('row %d: top entry %d = prior draw' % (r, k), row[k],
                 prior.draws[0][r][k])
        check_bottom(B, H, row, names, ids, uniq)
        eps = [row[k] for k in range(N) if 'Epsilon' in names[k]]
        seen = set()
        for k, e in enumerate(eps):
            m0, V, nm = c06.affine_law(B, e, 'epsilon %d' % k)
            B.eq('row %d epsilon %d ~ N(0,1): mean' % (r, k), m0, 0)
            B.eq('row %d epsilon %d ~ N(0,1): variance' % (r, k), V, 1)
            B.fact('row %d epsilon %d: own noise' % (r, k),
                   not (set(nm) & seen))
            seen |= set(nm)


def case_chains(B, cfg):
    if not B.symbolic:
        return
    hierarchical = cfg.get('units') is not None
    if hierarchical and cfg.get('filter_posterior'):
        # the filter posterior lists its population-level entries *first*
        H = c13.build(B, dict(units=cfg['units'], n_samples=cfg['n_ids'],
                              times=[2.5, 1.0]))
        post = H['post']
    elif hierarchical:
        H = hier.build(B, cfg)
        hl = H['hl']
        n_top = hl.n_parameters(exclude_bottom_level=True)
        top_names = hl.get_parameter_names(exclude_bottom_level=True)
        post = chi.HierarchicalLogPosterior(
            hl, DrawPrior(B, n_top, _positive_idx(top_names)))
    else:
        mm = SymMechModel(B, 2, 1)
        ll = chi.LogLikelihood(mm, chi.GaussianErrorModel(),
                               [B.var('y0'), B.var('y1')], [1.0, 2.5])
        ll.set_id('patient 7')
        post = chi.LogPosterior(ll, DrawPrior(B, 3, (2,)))
    rng = B.new_rng()
    # the controller object without running a sampler (its constructor only
    # draws initial points, which case_init_* covers)
    ctrl = chi.SamplingController.__new__(chi.SamplingController)
    ctrl._log_posterior = post
    N = post.n_parameters()
    nc, nd = cfg['n_chains'], cfg['n_draws']
    chains = np.empty((nc, nd, N), dtype=object)
    for c in range(nc):
        for d in range(nd):
            for k in range(N):
                chains[c, d, k] = B.var('c[%d|%d|%d]' % (c, d, k))
    ds = ctrl._format_chains(chains, None)
    names = post.get_parameter_names()
    ids = post.get_id()
    if not isinstance(ids, list):
        ids = [ids] * N
    top = post.get_parameter_names(exclude_bottom_level=True) \
        if hierarchical else names
    B.fact('every distinct name is one variable of the dataset',
           sorted(ds.data_vars) == sorted(set(names)),
           '%r vs %r' % (sorted(ds.data_vars), sorted(set(names))))
    for k, name in enumerate(names):
        if name not in ds.data_vars:
            continue
        da = ds[name]
        if hierarchical and ids[k] is not None:
            B.fact('%s is indexed by individual' % name,
                   'individual' in da.dims)
            if 'individual' not in da.dims:
                continue
            sel = da.sel(individual=ids[k]).values
        else:
            B.fact('%s is indexed by (chain, draw) only' % name,
                   tuple(da.dims) == ('chain', 'draw') or not hierarchical,
                   repr(da.dims))
            sel = da.values
            if sel.ndim == 3:
                sel = sel[:, :, 0]
        for c in range(nc):
            for d in range(nd):
                B.eq('dataset[%s, id=%s][chain %d, draw %d] = raw chain '
                     'entry %d' % (name, ids[k], c, d, k), sel[c][d],
                     chains[c, d, k])
    # read back
    if cfg.get('filter_posterior'):
        return
    if hierarchical:
        # (compute_pointwise_loglikelihood is not available for hierarchical
        # likelihoods in this version: compute_pointwise_ll raises
        # NotImplementedError; the read-back path that exists is the
        # posterior predictive model of one individual)
        D = hier.total_dim(cfg['units'])
        special = any(ps.is_delta(u['kind']) for u in cfg['units'])
        if not special:
            pm = chi.PredictiveModel(SymMechModel(B, D - 1, 1),
                                     chi.GaussianErrorModel())
            ppm = chi.PosteriorPredictiveModel(pm, ds)
            uniq = post.get_id(unique=True)
            pos = {(ids[k], names[k]): k for k in range(N)}
            for c in range(nc):
                for d in range(nd):
                    for _id in uniq:
                        B.assume(chains[c, d, pos[(_id, names[D - 1])]] > 0)
            for _id in uniq:
                df = ppm.sample([1.0], n_samples=1, individual=_id, seed=2)
                v = Sym.lift(list(df['Value'])[0])
                args = list(c15._yargs(v).values())[0]
                hit = [(c, d) for c in range(nc) for d in range(nd)
                       if all(a is chains[c, d, pos[(_id, names[j])]].t
                              for j, a in enumerate(args))]
                B.fact('posterior predictive of %s reads one joint raw row '
                       'of that individual' % _id, len(hit) == 1,
                       repr([T.show(a) for a in args]))
            # pointwise log-likelihood of one individual's likelihood, read
            # back from the hierarchical dataset with individual=<its ID>
            for i_, _id in enumerate(uniq):
                ll_i = H['lls'][i_]
                try:
                    pw = chi.compute_pointwise_loglikelihood(
                        ll_i, ds, individual=_id)
                except Exception as e:
                    B.fact('no-exception:compute_pointwise_loglikelihood('
                           'individual=%s)' % _id, False, repr(e))
                    continue
                for c in range(nc):
                    for d in range(nd):
                        vec = [chains[c, d, pos[(_id, names[j])]]
                               for j in range(D)]
                        ref = ll_i.compute_pointwise_ll(ps.arr(B, vec))
                        for j in range(len(ref)):
                            B.eq('pointwise log-likelihood of %s [chain %d, '
                                 'draw %d, obs %d] from its own columns'
                                 % (_id, c, d, j), pw.values[c][d][j], ref[j])
    else:
        ll = post.get_log_likelihood()
        pw = chi.compute_pointwise_loglikelihood(ll, ds)
        for c in range(nc):
            for d in range(nd):
                ref = ll.compute_pointwise_ll(chains[c, d, :])
                for j in range(len(ref)):
                    B.eq('pointwise log-likelihood[chain %d, draw %d, obs '
                         '%d]' % (c, d, j), pw.values[c][d][j], ref[j])
        pm = chi.PredictiveModel(SymMechModel(B, 2, 1),
                                 chi.GaussianErrorModel())
        ppm = chi.PosteriorPredictiveModel(pm, ds)
        for c in range(nc):
            for d in range(nd):
                B.assume(chains[c, d, 2] > 0)
        df = ppm.sample([1.0], n_samples=1, seed=2)
        v = Sym.lift(list(df['Value'])[0])
        ya = c15._yargs(v)
        args = list(ya.values())[0]
        hit = [(c, d) for c in range(nc) for d in range(nd)
               if all(a is chains[c, d, j].t for j, a in enumerate(args))]
        B.fact('posterior predictive reads one joint raw row',
               len(hit) == 1, repr([T.show(a) for a in args]))
        # a parameter map (model name -> dataset name): chained and swapped
        # entries are simultaneous substitutions, whatever the dict order
        mn = pm.get_parameter_names()
        for label, pmap, src in (
                ('chained', {mn[0]: names[1], mn[1]: names[0]}, [1, 0]),
                ('swap, reversed dict order',
                 dict([(mn[1], names[0]), (mn[0], names[1])]), [1, 0]),
                ('identity', {mn[0]: names[0]}, [0, 1])):
            ppm2 = chi.PosteriorPredictiveModel(pm, ds, param_map=pmap)
            df2 = ppm2.sample([1.0], n_samples=1, seed=2)
            a2 = list(c15._yargs(Sym.lift(list(df2['Value'])[0])).values())[0]
            hit2 = [(c, d) for c in range(nc) for d in range(nd)
                    if all(a2[j] is chains[c, d, src[j]].t
                           for j in range(2))]
            B.fact('param_map (%s): every model parameter reads the column '
                   'it is mapped to' % label, len(hit2) == 1,
                   repr([T.show(a) for a in a2]))


def case_init_repro(B, cfg):
    """initial points are reproducible from the seed -- whatever state the
    process-wide generator is in, for seed 0 like for any other seed (the
    prior draws from the global generator, as the pints priors do)"""
    from . import c16
    return c16.case_repro(B, cfg)


def case_opt_table(B, cfg):
    """OptimisationController.run over a stub of pints.OptimisationController
    that returns fresh symbolic estimates and a symbolic score per run (one
    run may break, which chi documents to fill with NaN): every table row
    pairs an estimate with its parameter name, ID, the run's score and the
    run number"""
    import chi._inference as inf
    hierarchical = cfg.get('units') is not None
    if hierarchical:
        H = hier.build(B, cfg)
        hl = H['hl']
        n_top = hl.n_parameters(exclude_bottom_level=True)
        post = chi.HierarchicalLogPosterior(hl, SymPrior(B, n_top))
    else:
        mm = SymMechModel(B, 2, 1)
        ll = chi.LogLikelihood(mm, chi.GaussianErrorModel(),
                               [B.var('y0'), B.var('y1')], [1.0, 2.5])
        ll.set_id('patient 7')
        post = chi.LogPosterior(ll, SymPrior(B, 3))
    N = post.n_parameters()
    n_runs = cfg['n_runs']
    broken = cfg.get('broken')
    handed = []
    est = [[B.var('est[%d|%d]' % (r, k)) for k in range(N)]
           for r in range(n_runs)]
    score = [B.var('score[%d]' % r) for r in range(n_runs)]

    class StubOpt(object):
        def __init__(self, function, x0, method=None, transformation=None,
                     **kw):
            self.r = len(handed)
            handed.append((function, list(x0)))

        def set_log_to_screen(self, *a, **k):
            pass

        def set_max_iterations(self, *a, **k):
            pass

        def set_parallel(self, *a, **k):
            pass

        def run(self):
            if self.r == broken:
                raise RuntimeError('optimiser broke')
            return ps.arr(B, est[self.r]), score[self.r]

    old = inf.pints

    class _P(object):
        OptimisationController = StubOpt

        def __getattr__(self, name):
            return getattr(old, name)

    ctrl = chi.OptimisationController.__new__(chi.OptimisationController)
    ctrl._log_posterior = post
    ctrl._n_runs = n_runs
    x0 = [[B.var('x0[%d|%d]' % (r, k)) for k in range(N)]
          for r in range(n_runs)]
    ctrl._initial_params = ps.arr(B, x0)
    ctrl._optimiser = None
    ctrl._transform = None
    ctrl._parallel_evaluation = False
    inf.pints = _P()
    try:
        df = ctrl.run()
    finally:
        inf.pints = old
    names = post.get_parameter_names()
    ids = post.get_id()
    if not isinstance(ids, list):
        ids = [ids] * N
    B.fact('one optimisation per run, started at that run\'s initial point',
           len(handed) == n_runs and all(
               f is post and all(Sym.lift(a).t is Sym.lift(b).t
                                 for a, b in zip(x, x0[r]))
               for r, (f, x) in enumerate(handed)))
    B.fact('table: one row per run and parameter', len(df) == n_runs * N,
           '%d vs %d' % (len(df), n_runs * N))
    if len(df) != n_runs * N:
        return
    rows = [r for _, r in df.iterrows()]
    for r in range(n_runs):
        for k in range(N):
            row = rows[r * N + k]
            B.fact('run %d entry %d: parameter name' % (r + 1, k),
                   row['Parameter'] == names[k], repr(row['Parameter']))
            B.fact('run %d entry %d: ID' % (r + 1, k),
                   row['ID'] == ids[k] or (row['ID'] is None and
                                            ids[k] is None) or
                   (ids[k] is None and row['ID'] != row['ID']),
                   '%r vs %r' % (row['ID'], ids[k]))
            B.fact('run %d entry %d: run number' % (r + 1, k),
                   row['Run'] == r + 1, repr(row['Run']))
            if r == broken:
                B.fact('run %d entry %d: a broken run is filled with NaN'
                       % (r + 1, k), row['Estimate'] != row['Estimate'] and
                       row['Score'] != row['Score'])
            else:
                B.eq('run %d entry %d: estimate' % (r + 1, k),
                     row['Estimate'], est[r][k])
                B.eq('run %d entry %d: score of the run' % (r + 1, k),
                     row['Score'], score[r])


def jobs(tier):
    out = []
    q = tier == 'quick'
    U_ = hier.unit
    for broken in (None, 0, 1):
        out.append(('opt_table', 'case_opt_table',
                    dict(n_runs=2, broken=broken), F))
        for c, n_ids, labels in (
                ([U_('gaussian'), U_('pooled')], 2, None),
                ([U_('hetero'), U_('lognormal_nc')], 3,
                 ['pat-C', 'pat-A', 'pat-B']),
                ([U_('pooled', 2)], 2, None)):
            out.append(('opt_table', 'case_opt_table', dict(
                units=c, n_ids=n_ids, id_labels=labels, n_runs=3,
                broken=broken), F))
    for seed in (3, 0, 1):
        for e in (dict(entry='init_logposterior'),
                  dict(entry='init_hierarchical',
                       units=[U_('gaussian'), U_('lognormal_nc')]),
                  dict(entry='init_hierarchical',
                       units=[U_('pooled'), U_('hetero')]),
                  dict(entry='init_filter',
                       units=[U_('gaussian'), U_('pooled')])):
            out.append(('init_repro', 'case_init_repro', dict(
                e, seed_value=seed, light=True, generator_ok=False,
                random=True), F))
    comps = c02.compositions(2, [2])
    if not q:
        comps = c02.compositions(3, [2, 3])[::3]
    for c in comps:
        for n_ids in ([2] if q else [1, 2, 3]):
            # (heterogeneous dimensions fork per individual and draw: with 3
            # individuals the path bound is raised)
            n_het = sum(u['n_dim'] for u in c if u['kind'] == 'hetero')
            if n_ids >= 3 and n_het >= 2:
                continue     # 3^(2 draws x n_het) index choices: over the bound
            Fh = F if n_ids < 3 or not n_het else dict(F, max_paths=3000)
            out.append(('init_hier', 'case_init_hier',
                        dict(units=c, n_ids=n_ids), Fh))
            if len(c) == 1:
                out.append(('init_hier', 'case_init_hier',
                            dict(units=c, n_ids=n_ids, bare=True), F))
    cov = [c for c in c02.compositions(2, [2], covs=(0, 1))
           if any(u['cov'] for u in c)]
    for c in (cov[::4] if q else cov):
        out.append(('init_hier', 'case_init_hier', dict(units=c, n_ids=2), F))
    for j, c in enumerate(comps[::6]):
        out.append(('init_hier', 'case_init_hier',
                    dict(units=c, n_ids=2, fix=j), F))
    for k, c in enumerate(c for c in c02.extra_quick()
                          if not any(u.get('sel') for u in c)):
        out.append(('init_hier', 'case_init_hier', dict(units=c, n_ids=2),
                    F))
        out.append(('init_filter', 'case_init_filter', dict(
            units=c, n_samples=2, times=[2.5, 1.0],
            sigma_fixed=(k % 2 == 0)), F))
    for k, c in enumerate(comps[::2] if q else comps):
        out.append(('init_filter', 'case_init_filter', dict(
            units=c, n_samples=2, times=[2.5, 1.0],
            sigma_fixed=(k % 2 == 0)), F))
    out.append(('chains', 'case_chains', dict(n_chains=2, n_draws=2), F))
    for c in (comps[::4] if q else comps[::2]):
        out.append(('chains', 'case_chains', dict(
            units=c, n_ids=2, n_chains=2, n_draws=2 if q else 3), F))
    U = hier.unit
    # chains of a filter posterior (population-level entries come first)
    for c in ([U('gaussian'), U('pooled')], [U('lognormal_nc', 2)],
              [U('hetero'), U('gaussian_nc')]):
        out.append(('chains', 'case_chains', dict(
            units=c, n_ids=2, n_chains=2, n_draws=2, filter_posterior=True),
            F))
    # individual labels that are not in lexicographic order
    for c, n_ids, labels in (
            ([U('gaussian'), U('pooled')], 3, ['pat-C', 'pat-A', 'pat-B']),
            ([U('lognormal_nc'), U('hetero')], 2, ['b', 'a']),
            ([U('hetero', 2)], 3, ['10', '9', '1']),
            ([U('gaussian'), U('pooled')], 11, None)):
        out.append(('chains', 'case_chains', dict(
            units=c, n_ids=n_ids, n_chains=1 if n_ids > 3 else 2, n_draws=2,
            id_labels=labels), F))
    return out


BOUNDS = dict(
    quick='hierarchical posteriors over all compositions of <= 2 sub-models '
          '(total dimension 2, 2 individuals) incl. bare models, a quarter of '
          'the covariate variants, fixed-parameter samples; filter posteriors '
          'on every second composition; 2 initial points; reproducibility '
          'from the seed (3, 0, 1) under different global generator states '
          'for the three posterior classes; chains with 2 '
          'chains x 2 draws for an individual posterior and a quarter of the '
          'hierarchical compositions, 3 filter posteriors (population-level '
          'entries first), plus 3 posteriors with unsorted custom '
          'individual labels and one with 11 default-labelled individuals',
    thorough='a third of the compositions of <= 3 sub-models with dimension '
             '2-3, 1-3 individuals (3 individuals with at most one '
             'heterogeneous dimension), all covariate variants, 3 draws',
    outside='running the optimisers / samplers themselves (the optimiser is '
            'a stub returning symbolic estimates and scores; chains are a '
            'symbolic array); arviz conversion')
TRUSTED = ['RNG stub', 'prior stub (fresh symbols per draw)',
           'pints.OptimisationController stub (returns symbolic estimates)',
           'xarray object arrays', 'z3']
