"""
Reference formulas written from the class docstrings of chi (documentation is
the oracle).  Every function works on the backend's scalars (symbolic or
float).
"""

ERROR_MODELS = ['Gaussian', 'Multiplicative', 'ConstantAndMultiplicative',
                'LogNormal']


def error_model(name):
    import chi
    return {
        'Gaussian': chi.GaussianErrorModel,
        'Multiplicative': chi.MultiplicativeGaussianErrorModel,
        'ConstantAndMultiplicative':
            chi.ConstantAndMultiplicativeGaussianErrorModel,
        'LogNormal': chi.LogNormalErrorModel,
    }[name]()


def em_nparams(name):
    return 2 if name == 'ConstantAndMultiplicative' else 1


def em_sigma_tot(name, par, ybar):
    if name == 'Gaussian':
        return par[0]
    if name == 'Multiplicative':
        return par[0] * ybar
    if name == 'ConstantAndMultiplicative':
        return par[0] + par[1] * ybar
    raise ValueError(name)


def em_logpdf(B, name, par, ybar, y):
    """Documented log-density of one measurement y given model output ybar."""
    half_log_2pi = B.log(2 * B.pi) / 2
    if name == 'LogNormal':
        s = par[0]
        return -half_log_2pi - B.log(s) - B.log(y) \
            - (B.log(y) - B.log(ybar) + s * s / 2) ** 2 / (2 * s * s)
    st = em_sigma_tot(name, par, ybar)
    return -half_log_2pi - B.log(st) - (y - ybar) ** 2 / (2 * st * st)


def em_assume_support(B, name, par, ybars, ys=()):
    """The documented domain (DESIGN 4.3)."""
    for p in par:
        B.assume(p > 0)
    if name == 'Multiplicative':
        for yb in ybars:
            B.assume(yb > 0)
    elif name == 'ConstantAndMultiplicative':
        for yb in ybars:
            B.assume(par[0] + par[1] * yb > 0)
    elif name == 'LogNormal':
        for yb in ybars:
            B.assume(yb > 0)
        for y in ys:
            B.assume(y > 0)


def em_generative(B, name, par, ybar, eps):
    """Documented generative map y = g(eps)."""
    if name == 'LogNormal':
        s = par[0]
        return ybar * B.exp(-(s * s) / 2 + s * eps)
    return ybar + em_sigma_tot(name, par, ybar) * eps


def std_normal_logpdf(B, x):
    return -B.log(2 * B.pi) / 2 - x * x / 2
