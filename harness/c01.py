"""C01 - the individual log-likelihood sums each observation's density exactly
once."""
import itertools

import numpy as np

import chi

from . import refs
from .stubs import SymMechModel, SymPrior

EXPLANATION = (
    'chi.LogLikelihood (constructor, union-grid/mask bookkeeping, __call__, '
    'compute_pointwise_ll, n_observations) and chi.LogPosterior are executed '
    'on symbolic observations, mechanistic and error parameters over an '
    'uninterpreted mechanistic model whose output symbol is keyed by output '
    'and time value; z3 decides that the score equals the sum over all '
    '(time, value) pairs of the documented error-model log-density at the '
    'prediction for that output and time, that the pointwise vector lists '
    'these terms output by output in time order and sums to the total.  All '
    'per-output time grids (as order types over K distinct values, lengths '
    '1..L, ties included) are enumerated.')

TIME_VALUES = [0.0, 1.0, 2.5, 4.0]


def build(B, cfg):
    ems = cfg['ems']
    times = cfg['times']
    n_out = len(ems)
    n_mech = cfg.get('n_mech', 2)
    sel = cfg.get('outputs')
    mm = SymMechModel(B, n_params=n_mech,
                      n_outputs=cfg.get('n_model_out', n_out))
    kw = {}
    if sel is not None:
        # the caller names the outputs (a selection / another order of the
        # model's outputs): error models, observations and times follow
        # the order of that list
        kw['outputs'] = ['out%d' % i for i in sel]
    obs = [[B.var('y%d_%d' % (o, j)) for j in range(len(times[o]))]
           for o in range(n_out)]
    models = [refs.error_model(e) for e in ems]
    if n_out == 1 and cfg.get('flat', False):
        ll = chi.LogLikelihood(mm, models[0], obs[0], times[0], **kw)
    else:
        ll = chi.LogLikelihood(mm, models, obs, times, **kw)
    return mm, models, obs, ll


def case_ll(B, cfg):
    ems = cfg['ems']
    times = cfg['times']
    n_out = len(ems)
    n_mech = cfg.get('n_mech', 2)
    sel = cfg.get('outputs') or list(range(n_out))
    oname = ['out%d' % i for i in sel]
    try:
        mm, models, obs, ll = build(B, cfg)
    except (ValueError, TypeError) as e:
        B.note('constructor', 'rejected: %s' % e)
        B.fact('constructor-rejects-only-unsorted', cfg.get('unsorted', False),
               repr(e))
        return
    psi = B.vars('psi', n_mech)
    pars = []
    for o, e in enumerate(ems):
        pars.append([B.var('sig%d_%d' % (o, i))
                     for i in range(refs.em_nparams(e))])
    theta = psi + [p for ps in pars for p in ps]
    B.fact('n_parameters', ll.n_parameters() == len(theta),
           '%r vs %d' % (ll.n_parameters(), len(theta)))
    B.fact('n_observations', list(ll.n_observations()) ==
           [len(t) for t in times], repr(ll.n_observations()))
    if cfg.get('outputs') is not None:
        sub = ll.get_submodels()['Mechanistic model']
        B.fact('outputs of the likelihood = the outputs named, in that order',
               list(sub.outputs()) == oname, repr(sub.outputs()))
        if n_out > 1:
            names = ll.get_parameter_names()[n_mech:]
            want = [oname[o] for o, e in enumerate(ems)
                    for i in range(refs.em_nparams(e))]
            B.fact('error parameters are named after their own output',
                   all(str(n).startswith(w + ' ')
                       for n, w in zip(names, want)), repr(names))
    # reference: pair observation j of output o with its own time (stable
    # order by time, as documented: "output by output in time order")
    ref_terms = []
    for o, e in enumerate(ems):
        order = sorted(range(len(times[o])), key=lambda j: times[o][j])
        yb = [mm.sym_output(oname[o], times[o][j], psi) for j in order]
        ys = [obs[o][j] for j in order]
        refs.em_assume_support(B, e, pars[o], yb, ys)
        ref_terms.append([refs.em_logpdf(B, e, pars[o], a, b)
                          for a, b in zip(yb, ys)])
    flat = [t for ts in ref_terms for t in ts]
    total = flat[0]
    for t in flat[1:]:
        total = total + t
    th = np.array(theta, dtype=object) if B.symbolic else np.array(theta)
    try:
        value = ll(th)
    except Exception as e:
        B.fact('no-exception:__call__', False, repr(e))
        return
    B.fact('no-exception:__call__', True)
    B.eq('value=sum-of-documented-densities', value, total)
    try:
        pw = ll.compute_pointwise_ll(th)
    except Exception as e:
        B.fact('no-exception:pointwise', False, repr(e))
        return
    B.fact('pointwise-length', len(pw) == len(flat),
           '%d vs %d' % (len(pw), len(flat)))
    if len(pw) == len(flat):
        k = 0
        for o in range(n_out):
            # tied times: any order within a tie is "time order"; compare the
            # tied block as a sum and, for singletons, element-wise
            ts = sorted(times[o])
            j = 0
            while j < len(ts):
                j2 = j
                while j2 + 1 < len(ts) and ts[j2 + 1] == ts[j]:
                    j2 += 1
                l = pw[k + j]
                r = flat[k + j]
                for q in range(j + 1, j2 + 1):
                    l = l + pw[k + q]
                    r = r + flat[k + q]
                B.eq('pointwise[out%d, t=%s]' % (o, ts[j]), l, r)
                j = j2 + 1
            k += len(ts)
        B.eq('sum(pointwise)=value', np.sum(pw), value)
    # the order of evaluations does not matter: pointwise values right
    # after a gradient evaluation (sensitivities still switched on)
    if len(pw) == len(flat):
        try:
            ll.evaluateS1(th)
            pw2 = ll.compute_pointwise_ll(th)
        except Exception as e:
            B.fact('no-exception:pointwise after evaluateS1', False, repr(e))
            return
        B.fact('no-exception:pointwise after evaluateS1', True)
        B.eq('sum(pointwise) after evaluateS1 = value', np.sum(pw2), value)
    # a second evaluation of the same object at other mechanistic
    # parameters (arbitrarily close ones included): its own sum again
    if n_out <= 2 and len(flat) <= 4:
        psi2 = B.vars('psj', n_mech)
        tot2 = None
        for o, e in enumerate(ems):
            order = sorted(range(len(times[o])), key=lambda j: times[o][j])
            yb2 = [mm.sym_output(oname[o], times[o][j], psi2)
                   for j in order]
            ys = [obs[o][j] for j in order]
            refs.em_assume_support(B, e, pars[o], yb2, ys)
            for a, b in zip(yb2, ys):
                t_ = refs.em_logpdf(B, e, pars[o], a, b)
                tot2 = t_ if tot2 is None else tot2 + t_
        if tot2 is not None:
            th2 = psi2 + [p for ps in pars for p in ps]
            th2 = np.array(th2, dtype=object) if B.symbolic else \
                np.array(th2)
            B.eq('second evaluation at other parameters = its own sum',
                 ll(th2), tot2)
    if cfg.get('mutate_after') and n_out >= 1:
        # the caller goes on using the model object: the likelihood keeps
        # scoring against the model it was built with
        for step in cfg['mutate_after']:
            if step == 'outputs':
                mm.set_outputs(list(mm._all_outputs)[::-1][:max(
                    1, len(mm._all_outputs) - 1)])
            elif step == 'names':
                mm.set_output_names({o: 'renamed ' + o
                                     for o in mm._all_outputs})
                mm.set_parameter_names({p: 'renamed ' + p
                                        for p in mm.parameters()})
            elif step == 'sens':
                mm.enable_sensitivities(True)
        try:
            B.eq('value after the caller re-configured the model object',
                 ll(th), total)
            pw3 = ll.compute_pointwise_ll(th)
            B.eq('sum(pointwise) after the caller re-configured the model '
                 'object', np.sum(pw3), total)
        except Exception as e:
            B.fact('no-exception: evaluation after the caller re-configured '
                   'the model object', False, repr(e))
    if cfg.get('posterior', False):
        prior = SymPrior(B, len(theta))
        post = chi.LogPosterior(ll, prior)
        B.eq('posterior=prior+likelihood', post(th), prior(th) + total)


def empty_layouts():
    """an output without any measurement (accepted by the constructor): its
    error parameters are still part of the parameter vector"""
    out = []
    two = [('Gaussian', 'ConstantAndMultiplicative'),
           ('ConstantAndMultiplicative', 'Gaussian'),
           ('LogNormal', 'Multiplicative'),
           ('ConstantAndMultiplicative', 'LogNormal')]
    for e in two:
        for times in ([[], [0.0, 1.0]], [[1.0, 2.5], []], [[], [1.0, 1.0]]):
            out.append(('ll', 'case_ll', dict(ems=list(e), times=times), {}))
    for e in (('Gaussian', 'ConstantAndMultiplicative', 'LogNormal'),
              ('ConstantAndMultiplicative', 'Multiplicative', 'Gaussian')):
        for times in ([[0.0], [], [0.0, 1.0]], [[], [], [1.0]],
                      [[], [1.0, 2.5], [0.0]]):
            out.append(('ll', 'case_ll', dict(ems=list(e), times=times), {}))
    return out


def selections():
    """outputs= names a selection of the model's outputs / the same outputs
    in another order"""
    out = []
    k = 0
    pairs = list(itertools.product(refs.ERROR_MODELS, repeat=2))
    for n_model, sels in ((2, ([1, 0], [0, 1], [1], [0])),
                          (3, ([2, 0], [1, 2, 0], [2, 1, 0], [0, 2, 1],
                               [1]))):
        for sel in sels:
            for r in range(3):
                e = pairs[(5 * k + r * 7) % 16]
                ems = [e[i % 2] for i in range(len(sel))]
                if len(sel) == 3:
                    ems[2] = refs.ERROR_MODELS[(k + r) % 4]
                ts = [[[0.0, 1.0], [1.0], [0.0, 2.5]][(i + r) % 3]
                      for i in range(len(sel))]
                out.append(('ll', 'case_ll', dict(
                    ems=ems, times=ts, outputs=list(sel),
                    n_model_out=n_model), {}))
                k += 1
    return out


def mutations():
    out = []
    pairs = list(itertools.product(refs.ERROR_MODELS, repeat=2))
    k = 0
    for steps in (['outputs'], ['names'], ['sens'], ['outputs', 'names'],
                  ['names', 'sens', 'outputs']):
        for ts in ([[0.0, 1.0], [1.0]], [[1.0], [0.0, 2.5]]):
            out.append(('ll', 'case_ll', dict(
                ems=list(pairs[(3 * k + 1) % 16]), times=ts,
                mutate_after=steps), {}))
            k += 1
        out.append(('ll', 'case_ll', dict(
            ems=[refs.ERROR_MODELS[k % 4]], times=[[0.0, 2.5]],
            mutate_after=steps, n_model_out=2, outputs=[1]), {}))
    return out


def awkward_times():
    """time values that are not short decimals (1/3, 2/7, 7/3, 0.1 + 0.2):
    each measurement is still paired with the prediction at its own time"""
    out = []
    third, t73 = 1.0 / 3.0, 7.0 / 3.0
    layouts = [[[third, 1.0, 2.0, 3.0], [0.5, 2.0 / 3.0, 7.0 / 6.0, 3.0]],
               [[0.5, 1.0, 2.0], [1.0, t73]],
               [[k / 7.0 for k in range(1, 5)]],
               [[0.3, 0.1 + 0.2], [2.0 / 7.0, 0.3]],
               [[third], [third, t73], [6.0 / 7.0]]]
    for k, ts in enumerate(layouts):
        for r in range(2):
            ems = [refs.ERROR_MODELS[(k + r + i) % 4] for i in range(len(ts))]
            out.append(('ll', 'case_ll', dict(ems=ems, times=ts), {}))
    return out


def grids(K, L):
    vals = TIME_VALUES[:K]
    out = []
    for n in range(1, L + 1):
        for c in itertools.combinations_with_replacement(vals, n):
            out.append(list(c))
    return out


def jobs(tier):
    out = []
    pairs = list(itertools.product(refs.ERROR_MODELS, repeat=2))
    if tier == 'quick':
        g = grids(3, 2)
        for i, t in enumerate(g):
            for j, e in enumerate(refs.ERROR_MODELS):
                out.append(('ll', 'case_ll', dict(
                    ems=[e], times=[t], flat=(i + j) % 2 == 0,
                    posterior=(i % 3 == 0)), {}))
        k = 0
        for t0 in g:
            for t1 in g:
                out.append(('ll', 'case_ll', dict(
                    ems=list(pairs[k % 16]), times=[t0, t1],
                    posterior=(k % 7 == 0)), {}))
                k += 1
        # all 16 assignments on three representative grid pairs
        for e in pairs:
            for t0, t1 in ([[0.0, 1.0], [1.0, 2.5]], [[1.0], [0.0, 1.0]],
                           [[0.0, 2.5], [0.0, 2.5]]):
                out.append(('ll', 'case_ll', dict(
                    ems=list(e), times=[t0, t1]), {}))
        out.append(('ll', 'case_ll', dict(
            ems=['Gaussian'], times=[[2.5, 1.0]], unsorted=True), {}))
        # schedules that agree in length and end points and differ inside
        # (also with a tie, and agreeing in all but one end point)
        inner = [([0.0, 1.0, 4.0], [0.0, 2.5, 4.0]),
                 ([0.0, 1.0, 2.5, 4.0], [0.0, 2.0, 2.0, 4.0]),
                 ([0.0, 2.5, 4.0], [0.0, 1.0, 4.0]),
                 ([1.0, 2.0, 4.0], [1.0, 2.5, 3.0]),
                 ([0.0, 1.0, 4.0], [0.5, 1.0, 4.0])]
        for k, (t0, t1) in enumerate(inner):
            out.append(('ll', 'case_ll', dict(
                ems=list(pairs[(5 * k + 1) % 16]), times=[t0, t1],
                posterior=(k % 2 == 0)), {}))
        out.append(('ll', 'case_ll', dict(
            ems=['Gaussian', 'LogNormal', 'Gaussian'],
            times=[[0.0, 1.0, 4.0], [0.0, 4.0], [0.0, 2.5, 4.0]]), {}))
        # three and four outputs: error models with different numbers of
        # parameters in every position (offsets of the parameter slices)
        trip = list(itertools.product(refs.ERROR_MODELS, repeat=3))
        g3 = [[[0.0], [1.0], [0.0, 1.0]], [[0.0, 1.0], [1.0, 1.0], [2.5]],
              [[1.0, 2.5], [0.0], [0.0, 2.5]]]
        for k, e in enumerate(trip):
            if len(set(refs.em_nparams(x) for x in e)) > 1 or k % 9 == 0:
                out.append(('ll', 'case_ll', dict(
                    ems=list(e), times=g3[k % 3], posterior=(k % 11 == 0)),
                    {}))
        for e in (['ConstantAndMultiplicative', 'Gaussian', 'LogNormal',
                   'ConstantAndMultiplicative'],
                  ['Gaussian', 'ConstantAndMultiplicative', 'Multiplicative',
                   'Gaussian']):
            out.append(('ll', 'case_ll', dict(
                ems=e, times=[[0.0], [0.0, 1.0], [1.0], [2.5]]), {}))
        out += empty_layouts()
        out += selections()
        out += mutations()
        out += awkward_times()
    else:
        g = grids(4, 3)
        for i, t in enumerate(g):
            for j, e in enumerate(refs.ERROR_MODELS):
                out.append(('ll', 'case_ll', dict(
                    ems=[e], times=[t], flat=(i + j) % 2 == 0,
                    posterior=True), {}))
        k = 0
        for t0 in g:
            for t1 in g:
                for r in range(2):
                    out.append(('ll', 'case_ll', dict(
                        ems=list(pairs[(k + 5 * r) % 16]), times=[t0, t1],
                        posterior=(k % 5 == 0)), {}))
                k += 1
        g3 = grids(3, 2)
        trip = list(itertools.product(refs.ERROR_MODELS, repeat=3))
        k = 0
        for t0 in g3:
            for t1 in g3:
                for t2 in g3:
                    out.append(('ll', 'case_ll', dict(
                        ems=list(trip[k % 64]), times=[t0, t1, t2]), {}))
                    k += 1
        out.append(('ll', 'case_ll', dict(
            ems=['Gaussian'], times=[[2.5, 1.0]], unsorted=True), {}))
        out += selections()
        out += mutations()
        out += awkward_times()
    return out


BOUNDS = dict(
    quick='1-2 outputs; every pair of per-output time multisets of length '
          '1..2 over 3 distinct values (ties included); 6 schedules of 3-4 '
          'times agreeing in length / end points and differing inside; error-model '
          'assignments rotated over the grid pairs plus all 16 on three grid '
          'pairs; every triple of error models with unequal parameter counts '
          'on 3 outputs and two assignments on 4 outputs (fixed grids); '
          'outputs without measurements in every position of 2- and 3-output '
          'likelihoods; '
          '2 mechanistic parameters',
    thorough='1-3 outputs; all pairs of time multisets of length 1..3 over 4 '
             'distinct values, all triples of length 1..2 over 3 values; '
             'error-model assignments rotated',
    outside='more observations per output than the bound; more than 3 '
            'outputs; the ODE solver (uninterpreted); unsorted input is '
            'rejected by the constructor and not part of the claim')
TRUSTED = ['z3', 'object-dtype NumPy', 'harness/refs.py densities',
           'uninterpreted mechanistic model stub (harness/stubs.py)']
