"""C10 - dosing regimens deliver the specified amounts at the specified
times."""
import itertools
import math

import numpy as np

import chi
import chi.library

from chisym import facade_myokit as fm
from chisym.sym import Sym

from . import c09
from . import popspec as ps

EXPLANATION = (
    'Over the myokit stub (real model classes, protocol record with '
    'symbolic fields): (a) set_dosing_regimen with symbolic dose, start, '
    'duration, period and every num in {None,0..3} hands the simulator one '
    'event with level*duration = dose and the documented start / period / '
    'count, an explicit protocol is passed through; (b) the model surgery of '
    'set_administration on every dosable state of the library and generated '
    'models is decided on the myokit expression trees: new rhs - vanilla rhs '
    '= pace-bound dose rate (direct) or the first-order depot equations '
    '(indirect); (c) with myokit\'s event semantics the cumulative input '
    'between infusions equals the sum of the doses scheduled so far; (d) '
    'PredictiveModel.get_dosing_regimen(final_time) run on symbolic start, '
    'period, duration, level, final_time lists exactly the events with '
    'start + k*period <= final_time (k < multiplier when finite) with '
    '(time, duration, level*duration); the floor is forked over its feasible '
    'integer values; (e) ProblemModellingController.set_data / '
    'get_dosing_regimens run on a pandas data frame whose dose amounts, dose '
    'times and durations are symbolic (object columns; pd.to_numeric passes '
    'them through): every individual\'s regimen holds exactly its dose rows '
    '(rows without a dose or without a time are no events), with start = '
    'time, rate * duration = amount and the documented 0.01 bolus duration '
    'when the duration is missing.')

FACADE = {'facade': {'myokit': True}, 'diffcheck': False, 'floor_cap': 5,
          'max_paths': 400}


def _pk(B):
    m = chi.library.ModelLibrary().one_compartment_pk_model()
    return m


def case_regimen(B, cfg):
    """(a) + (c)"""
    m = _pk(B)
    m.set_administration('central', direct=cfg['direct'])
    dose, start, dur = B.var('dose'), B.var('start'), B.var('duration')
    B.assume(dose > 0)
    B.assume(start >= 0)
    B.assume(dur > 0)
    num, use_period = cfg['num'], cfg['period']
    period = B.var('period') if use_period else None
    if use_period:
        B.assume(period > dur)
    kw = dict(dose=dose, start=start, duration=dur)
    if use_period:
        kw['period'] = period
    if num is not None:
        kw['num'] = num
    m.set_dosing_regimen(**kw)
    reg = m.dosing_regimen()
    live = m._simulator._protocol
    B.fact('reported regimen is the protocol on the live simulator',
           reg is live)
    ev = reg.events()
    B.fact('one dose event', len(ev) == 1, repr(len(ev)))
    e = ev[0]
    B.eq('level * duration = dose', e.level() * e.duration(), dose)
    B.eq('event start', e.start(), start)
    B.eq('event duration', e.duration(), dur)
    if not use_period:
        B.fact('single dose: period 0, multiplier 0',
               e.period() == 0 and e.multiplier() == 0,
               repr((e.period(), e.multiplier())))
        n_events = 1
    else:
        B.eq('event period', e.period(), period)
        want = 0 if num is None else num
        B.fact('multiplier = requested number of doses (0 = indefinitely)',
               e.multiplier() == want, repr(e.multiplier()))
        n_events = None if want == 0 else want
    # (c) cumulative input between infusions, myokit event semantics:
    # active on [start + k p, start + k p + duration), rate = level
    T_ = B.var('T')
    level = e.level()
    per = e.period()
    kmax = 4
    for k in range(kmax):
        if not use_period and k > 0:
            break
        if n_events is not None and k >= n_events:
            break
        pk = (per * k) if use_period else 0
        nxt = (per * (k + 1)) if use_period else None
        # T after the k-th infusion has finished and before the next starts
        lo = start + pk + dur
        cum = 0
        for j in range(k + 1):
            pj = (per * j) if use_period else 0
            # delivered by event j up to T: level * clip(T - s_j, 0, dur)
            cum = cum + level * dur
        # obligation under the assumption lo <= T (< next start)
        cond = (T_ >= lo)
        if nxt is not None and (n_events is None or k + 1 < n_events):
            cond = cond & (T_ < start + nxt)
        if bool(cond):
            B.eq('cumulative input after dose %d = %d doses' % (k + 1, k + 1),
                 cum, dose * (k + 1))
    # the regimen stays applied when the solver is rebuilt for sensitivities
    for step in ('enable', 'enable again', 'enable for a subset', 'disable'):
        if step == 'enable for a subset':
            m.enable_sensitivities(True, parameter_names=m.parameters()[:1])
        else:
            m.enable_sensitivities(step != 'disable')
        B.fact('after %s sensitivities: reported regimen still applied' % step,
               m.dosing_regimen() is reg and m._simulator._protocol is reg)
    # explicit protocol is passed through
    p = fm.Protocol()
    p.schedule(B.var('lv'), B.var('st'), B.var('du'), B.var('pe'), 2)
    m.set_dosing_regimen(p)
    B.fact('explicit protocol passed through',
           m.dosing_regimen() is p and m._simulator._protocol is p)


TWO_COMP = '''<?xml version="1.0" encoding="UTF-8"?>
<sbml xmlns="http://www.sbml.org/sbml/level3/version2/core" level="3" version="2">
  <model id="two_compartments_one_called_dose">
    <listOfCompartments>
      <compartment id="dose" name="dose" size="1"/>
      <compartment id="central" name="central" size="1"/>
    </listOfCompartments>
    <listOfSpecies>
      <species id="drug" name="drug" compartment="dose" initialAmount="0" hasSubstanceUnits="false"/>
      <species id="drug_c" name="drug_c" compartment="central" initialAmount="0" hasSubstanceUnits="false"/>
    </listOfSpecies>
    <listOfParameters>
      <parameter id="uptake_rate" value="1" constant="true"/>
      <parameter id="elimination_rate" value="1" constant="true"/>
    </listOfParameters>
    <listOfReactions>
      <reaction id="uptake" reversible="false" fast="false">
        <listOfReactants><speciesReference species="drug"/></listOfReactants>
        <listOfProducts><speciesReference species="drug_c"/></listOfProducts>
        <kineticLaw><math xmlns="http://www.w3.org/1998/Math/MathML">
          <apply><times/><ci> dose </ci><ci> uptake_rate </ci><ci> drug </ci></apply>
        </math></kineticLaw>
      </reaction>
      <reaction id="elimination" reversible="false" fast="false">
        <listOfReactants><speciesReference species="drug_c"/></listOfReactants>
        <kineticLaw><math xmlns="http://www.w3.org/1998/Math/MathML">
          <apply><times/><ci> central </ci><ci> elimination_rate </ci><ci> drug_c </ci></apply>
        </math></kineticLaw>
      </reaction>
    </listOfReactions>
  </model>
</sbml>
'''


def case_surgery(B, cfg):
    """(b) model surgery on the expression trees"""
    import myokit
    if cfg['model'] == 'two_comp_dose':
        # a model that already has a compartment called 'dose' (the name
        # chi gives to its absorption depot)
        m = chi.PKPDModel(c09._write(TWO_COMP, 'two_comp_dose.xml'))
        comp = cfg['comp']
    elif cfg['model'] == 'generated':
        path = c09._write(c09.generated(cfg['spec']), 'surg_%s.xml' % (
            '-'.join(cfg['spec']['states'])))
        m = chi.PKPDModel(path)
        comp = 'global'
    else:
        m = getattr(chi.library.ModelLibrary(), cfg['model'])()
        comp = cfg['comp']
    var = cfg['var']
    vanilla = m._vanilla_model.clone()
    try:
        if cfg.get('first_var'):
            # the same model was dosed into another state of the same
            # compartment before: only the last administration counts
            m.set_administration(comp, amount_var=cfg['first_var'],
                                 direct=cfg['direct'])
        m.set_administration(comp, amount_var=var, direct=cfg['direct'])
    except Exception as e:
        B.fact('no-exception:set_administration', False, repr(e))
        return
    model = m._simulator._model
    B.fact('simulator was rebuilt on the new model', model is not None)
    env_new, env_old = {}, {}
    pace = None
    for v in model.variables(deep=True):
        q = v.qname()
        if v.binding() == 'pace':
            pace = q
        if v.is_state() or v.is_literal() or v.binding() is not None:
            env_new[q] = B.var('V_' + q.replace('.', '_'))
    for v in vanilla.variables(deep=True):
        q = v.qname()
        if v.is_state() or v.is_literal() or v.binding() is not None:
            env_old[q] = env_new.get(q, B.var('V_' + q.replace('.', '_')))
    B.fact('exactly one pace-bound dose-rate variable', pace is not None and
           sum(1 for v in model.variables(deep=True)
               if v.binding() == 'pace') == 1, repr(pace))
    if pace is None:
        return
    rate = env_new[pace]
    target = comp + '.' + var
    # the absorption depot is the component the vanilla model does not have
    # ('dose', or a renamed one when that name is taken)
    added = [c.name() for c in model.components()
             if not vanilla.has_component(c.name())]
    dep = added[0] if added else 'dose'
    if not cfg['direct']:
        B.fact('indirect route: exactly one component (the depot) added',
               len(added) == 1, repr(added))
        if len(added) != 1:
            return
    for v in vanilla.states():
        q = v.qname()
        old = c09.expr_term(B, v.rhs(), env_old)
        new = c09.expr_term(B, model.get(q).rhs(), env_new)
        if q == target:
            if cfg['direct']:
                B.eq('d/dt %s gains the dose rate' % q, new - old, rate)
            else:
                ka = env_new[dep + '.absorption_rate']
                depot = env_new[dep + '.drug_amount']
                B.eq('d/dt %s gains k_a * depot' % q, new - old, ka * depot)
        else:
            B.eq('d/dt %s unchanged' % q, new, old)
    if cfg['direct']:
        B.fact('no depot compartment', not added, repr(added))
        B.fact('parameters unchanged by direct administration',
               m.n_parameters() == vanilla.count_states() + sum(
                   1 for v in vanilla.variables(const=True)
                   if v.is_literal()))
    else:
        ka = env_new[dep + '.absorption_rate']
        depot = env_new[dep + '.drug_amount']
        new = c09.expr_term(B, model.get(dep + '.drug_amount').rhs(),
                            env_new)
        B.eq('depot: d/dt = -k_a * depot + dose rate', new,
             -ka * depot + rate)
        B.fact('depot parameters published',
               dep + '.drug_amount' in m.parameters() and
               dep + '.absorption_rate' in m.parameters(),
               repr(m.parameters()))
    B.fact('administration recorded', m.administration() == dict(
        compartment=comp, direct=cfg['direct']))


def case_table(B, cfg):
    """(d) PredictiveModel.get_dosing_regimen"""
    m = _pk(B)
    m.set_administration('central', direct=True)
    level, start, dur, per, final = (B.var('level'), B.var('start'),
                                     B.var('duration'), B.var('period'),
                                     B.var('final_time'))
    mult = cfg['multiplier']
    B.assume(level > 0)
    B.assume(start >= 0)
    B.assume(dur > 0)
    B.assume(final >= 0)
    cap = 4
    if cfg['periodic']:
        B.assume(per > dur)
        # bounded unrolling: at most `cap` doses before final_time
        B.assume(final < start + per * cap)
        B.assume(final < per * cap)
    p = fm.Protocol()
    p.schedule(level, start, dur, per if cfg['periodic'] else 0, mult)
    m.set_dosing_regimen(p)
    pm = chi.PredictiveModel(m, chi.GaussianErrorModel())
    B.fact('predictive model reports the regimen of its own copy',
           pm._mechanistic_model.dosing_regimen() is not None)
    try:
        df = pm.get_dosing_regimen(final_time=final)
    except Exception as e:
        B.fact('no-exception:get_dosing_regimen', False, repr(e))
        return
    # the events the simulation applies up to final_time
    want = []
    ks = range(cap + 1) if cfg['periodic'] else range(1)
    for k in ks:
        if cfg['periodic'] and mult > 0 and k >= mult:
            break
        t = start + per * k if cfg['periodic'] else start
        if bool(t <= final):
            want.append(t)
    rows = [] if df is None else [
        (r['Time'], r['Duration'], r['Dose']) for _, r in df.iterrows()]
    B.fact('number of listed doses = number applied up to final_time',
           len(rows) == len(want), '%d listed, %d applied' % (
               len(rows), len(want)))
    for k, (row, t) in enumerate(zip(rows, want)):
        B.eq('row %d time' % k, row[0], t)
        B.eq('row %d duration' % k, row[1], dur)
        B.eq('row %d dose = level * duration' % k, row[2], level * dur)
    B.note('n_rows', len(rows))


NAN = float('nan')


def dataset_rows(B, layout, id_labels, tag=''):
    """long-format rows for the given per-individual row kinds:
    'M' measurement; 'D' dose with a duration; 'B' dose without duration
    (bolus); 'X' dose row without a time (not a dose event); 'N' row with a
    duration but no dose (not a dose event).  Dose amounts, times and
    durations are symbolic.  Returns (rows per individual, expected events
    per individual)."""
    rows, want = [], []
    for i, kinds in enumerate(layout):
        r, w = [], []
        for j, k in enumerate(kinds):
            name = '%s%d_%d' % (tag, i, j)
            if k == 'M':
                r.append(dict(ID=id_labels[i], Time=0.5 + j, Observable='Conc',
                              Value=B.var('y' + name), Dose=NAN,
                              Duration=NAN))
                continue
            t, d, u = B.var('t' + name), B.var('d' + name), B.var('u' + name)
            B.assume(d > 0)
            B.assume(u > 0)
            B.assume(t >= 0)
            row = dict(ID=id_labels[i], Time=t, Observable=NAN, Value=NAN,
                       Dose=d, Duration=u)
            if k == 'B':
                row['Duration'] = NAN
                w.append((t, d, 0.01))
            elif k == 'X':
                row['Time'] = NAN
            elif k == 'N':
                row['Dose'] = NAN
            else:
                w.append((t, d, u))
            r.append(row)
        rows.append(r)
        want.append(w)
    return rows, want


def interleave(rows, order):
    if order == 'blocks':
        return [r for ind in rows for r in ind]
    if order == 'reversed blocks':
        return [r for ind in reversed(rows) for r in ind]
    out = []
    k = 0
    while any(k < len(ind) for ind in rows):
        for ind in rows:
            if k < len(ind):
                out.append(ind[k])
        k += 1
    return out


def case_dataset(B, cfg):
    """(e) regimens derived from a dataset reproduce each individual's dose
    rows"""
    import pandas as pd
    m = _pk(B)
    m.set_administration('central', direct=cfg['direct'])
    ctrl = chi.ProblemModellingController(m, chi.GaussianErrorModel())
    labels = cfg['ids']
    rows, want = dataset_rows(B, cfg['layout'], labels)
    flat = interleave(rows, cfg['order'])
    df = pd.DataFrame(flat, columns=['ID', 'Time', 'Observable', 'Value',
                                     'Dose', 'Duration'])
    kw = {}
    if not cfg.get('duration_column', True):
        df = df.drop(columns=['Duration'])
        kw['dose_duration_key'] = None
        want = [[(t, d, 0.01) for (t, d, u) in w] for w in want]
    if cfg.get('before'):
        # call history: the controller has already been given another
        # (dosed) dataset over the same individuals; the regimens must be
        # those of the dataset set last
        rows0, _ = dataset_rows(B, cfg['before'], labels, tag='p')
        df0 = pd.DataFrame(interleave(rows0, 'blocks'), columns=[
            'ID', 'Time', 'Observable', 'Value', 'Dose', 'Duration'])
        try:
            ctrl.set_data(df0)
        except Exception as e:
            B.fact('no-exception:set_data (earlier dataset)', False, repr(e))
            return
    if cfg.get('undosed'):
        # the dataset set last carries no dose column: nobody is dosed
        df = df.drop(columns=[c for c in ('Dose', 'Duration')
                              if c in df.columns])
        df = df[df['Observable'].notna()]
        kw = dict(dose_key=None, dose_duration_key=None)
        want = [[] for _ in want]
    try:
        ctrl.set_data(df, **kw)
    except Exception as e:
        B.fact('no-exception:set_data', False, repr(e))
        return
    regs = ctrl.get_dosing_regimens()
    if cfg.get('undosed'):
        B.fact('no dose column: no regimens', regs is None, repr(regs))
        regs = {}
    first = []
    for r in flat:
        if str(r['ID']) not in first:
            first.append(str(r['ID']))
    if not cfg.get('undosed'):
        B.fact('one regimen per individual, keyed by the ID as a string',
               regs is not None and sorted(regs.keys()) == sorted(first),
               repr(None if regs is None else list(regs.keys())))
    if regs is None:
        return
    for i, lab in enumerate(labels):
        if str(lab) not in regs:
            continue
        ev = regs[str(lab)].events()
        B.fact('ID %s: number of dose events = number of dose rows' % lab,
               len(ev) == len(want[i]), '%d vs %d' % (len(ev), len(want[i])))
        for k, (e, (t, d, u)) in enumerate(zip(ev, want[i])):
            B.eq('ID %s dose %d: start = time of the row' % (lab, k),
                 e.start(), t)
            B.eq('ID %s dose %d: duration (0.01 when missing)' % (lab, k),
                 e.duration(), u)
            B.eq('ID %s dose %d: rate * duration = dose amount' % (lab, k),
                 e.level() * e.duration(), d)
            B.fact('ID %s dose %d: a single event' % (lab, k),
                   e.period() == 0 and e.multiplier() == 0)
    # the system each individual's likelihood simulates receives that
    # individual's doses (and nobody else's), in whatever order the
    # likelihoods are created
    import pints
    try:
        n = ctrl.get_n_parameters()
        ctrl.set_log_prior(pints.ComposedLogPrior(
            *[pints.HalfCauchyLogPrior(0, 1) for _ in range(n)]))
        posts = []
        if cfg.get('population'):
            # one hierarchical posterior over all individuals (order of the
            # IDs in the data set)
            ctrl.set_population_model(chi.ComposedPopulationModel(
                [chi.PooledModel() for _ in range(n)]))
            ctrl.set_log_prior(pints.ComposedLogPrior(
                *[pints.HalfCauchyLogPrior(0, 1) for _ in range(n)]))
            hp = ctrl.get_log_posterior()
            posts = list(hp.get_log_likelihood()._log_likelihoods)
            n_want = len(first)
        else:
            seq = list(range(len(labels))) + list(
                cfg.get('then_individually', []))
            for j in seq:
                posts.append(ctrl.get_log_posterior(
                    individual=str(labels[j])).get_log_likelihood())
            n_want = len(seq)
    except Exception as e:
        B.fact('no-exception:get_log_posterior', False, repr(e))
        return
    B.fact('one likelihood per individual requested', len(posts) == n_want,
           repr(len(posts)))
    for q, post in enumerate(posts):
        lab = post.get_id()
        idx = [i for i, l in enumerate(labels) if str(l) == str(lab)]
        B.fact('posterior %d: ID is one of the data set' % q, len(idx) == 1,
               repr(lab))
        if len(idx) != 1:
            continue
        mm = post.get_submodels()['Mechanistic model']
        reg = mm.dosing_regimen()
        ev = [] if reg is None else reg.events()
        w = want[idx[0]]
        tag = 'likelihood %d (ID %s)' % (q, lab)
        B.fact('%s: simulated system receives exactly the individual\'s '
               'dose events' % tag, len(ev) == len(w),
               '%d vs %d' % (len(ev), len(w)))
        for k, (e, (t, d, u)) in enumerate(zip(ev, w)):
            B.eq('%s dose %d: start' % (tag, k), e.start(), t)
            B.eq('%s dose %d: duration' % (tag, k), e.duration(), u)
            B.eq('%s dose %d: amount' % (tag, k), e.level() * e.duration(),
                 d)


def case_table_multi(B, cfg):
    """(d') the regimen table of a protocol with several dose events that
    differ in amount and duration: one row per administration up to the
    final time, each with its own event's duration and amount"""
    from .c15 import DosedSymMech, expected_doses
    events = []
    for k, (start, period, mult) in enumerate(cfg['events']):
        lv, du = B.var('rate%d' % k), B.var('dur%d' % k)
        B.assume(lv > 0)
        B.assume(du > 0)
        events.append((lv, start, du, period, mult))
    mm = DosedSymMech(B, 2, 1, events)
    pm = chi.PredictiveModel(mm, chi.GaussianErrorModel())
    wk = cfg.get('wrapper')
    if wk:
        # the same table asked of a model that wraps the predictive model
        import pints
        from .c15 import _posterior_dataset
        if wk == 'population':
            pm = chi.PopulationPredictiveModel(
                pm, chi.ComposedPopulationModel(
                    [chi.PooledModel() for _ in range(3)]))
        elif wk == 'prior':
            pm = chi.PriorPredictiveModel(pm, pints.ComposedLogPrior(*[
                pints.HalfCauchyLogPrior(0, 1) for _ in range(3)]))
        else:
            ds, _ = _posterior_dataset(B, pm.get_parameter_names(), None, 1,
                                       2)
            pm = chi.PosteriorPredictiveModel(pm, ds)
            if wk == 'pam':
                pm = chi.PAMPredictiveModel([pm, pm], [1.0, 2.0])
    ft = cfg['final_time']
    try:
        tab = pm.get_dosing_regimen(ft)
    except Exception as e:
        B.fact('no-exception:get_dosing_regimen', False, repr(e))
        return
    want = expected_doses(events, float('inf') if ft is None else ft,
                          indefinite_once=(ft is None))
    if not want:
        B.fact('no dose up to the final time: None', tab is None, repr(tab))
        return
    B.fact('a table is returned', tab is not None)
    if tab is None:
        return
    rows = sorted(((r['Time'], r['Duration'], r['Dose'])
                   for _, r in tab.iterrows()), key=lambda r: float(r[0]))
    want = sorted(want, key=lambda r: float(r[0]))
    B.fact('one row per administration', len(rows) == len(want),
           '%d vs %d' % (len(rows), len(want)))
    if len(rows) != len(want):
        return
    for k, (r, w) in enumerate(zip(rows, want)):
        B.fact('row %d: time' % k, float(r[0]) == float(w[0]),
               '%r vs %r' % (r[0], w[0]))
        B.eq('row %d: duration of its own event' % k, r[1], w[1])
        B.eq('row %d: amount of its own event' % k, r[2], w[2])


def _mechs(obj):
    """the mechanistic models a (wrapped) predictive model simulates"""
    if isinstance(obj, chi.PAMPredictiveModel):
        out = []
        for mdl in obj.get_predictive_model():
            out += _mechs(mdl)
        return out
    if isinstance(obj, chi.PopulationPredictiveModel):
        # (its inherited get_submodels() cannot be used: it reads attributes
        # this subclass never sets)
        return _mechs(obj._predictive_model)
    if isinstance(obj, chi.PredictiveModel):
        return [obj.get_submodels()['Mechanistic model']]
    return _mechs(obj.get_predictive_model())


def case_wrappers(B, cfg):
    """(f) a regimen set through a predictive model -- plain, population,
    prior, posterior, averaged over several posterior predictive models --
    reaches every system that is simulated, and the regimen table lists
    exactly those doses"""
    import pints
    from .c15 import _posterior_dataset
    kind = cfg['wrapper']

    def pm(direct):
        m = _pk(B)
        m.set_administration('central', direct=direct)
        return chi.PredictiveModel(m, chi.GaussianErrorModel())

    def posterior(direct):
        p = pm(direct)
        ds, cells = _posterior_dataset(B, p.get_parameter_names(), None, 1,
                                       2)
        return chi.PosteriorPredictiveModel(p, ds)
    if kind == 'predictive':
        w = pm(True)
    elif kind == 'population':
        p = pm(False)
        w = chi.PopulationPredictiveModel(p, chi.ComposedPopulationModel(
            [chi.PooledModel() for _ in range(p.n_parameters())]))
    elif kind == 'prior':
        p = pm(True)
        w = chi.PriorPredictiveModel(p, pints.ComposedLogPrior(*[
            pints.HalfCauchyLogPrior(0, 1)
            for _ in range(p.n_parameters())]))
    elif kind == 'posterior':
        w = posterior(False)
    else:
        w = chi.PAMPredictiveModel(
            [posterior(d) for d in cfg['directs']],
            [1.0] * len(cfg['directs']))
    dose, start, dur = B.var('dose'), B.var('start'), B.var('duration')
    B.assume(dose > 0)
    B.assume(start >= 0)
    B.assume(dur > 0)
    kw = dict(dose=dose, start=start, duration=dur)
    if cfg.get('period'):
        kw['period'] = B.var('period')
        B.assume(kw['period'] > dur)
        kw['num'] = cfg.get('num')
    n_calls = cfg.get('calls', 1)
    for c in range(n_calls - 1):
        # an earlier regimen is replaced, not kept
        w.set_dosing_regimen(dose=B.var('old_dose'), start=B.var('old_s'))
    try:
        w.set_dosing_regimen(**kw)
    except Exception as e:
        B.fact('no-exception:set_dosing_regimen', False, repr(e))
        return
    mechs = _mechs(w)
    B.fact('number of simulated systems',
           len(mechs) == (len(cfg['directs']) if kind == 'pam' else 1),
           repr(len(mechs)))
    for q_, m in enumerate(mechs):
        reg = m.dosing_regimen()
        ev = [] if reg is None else reg.events()
        tag = 'simulated system %d' % q_
        B.fact('%s: one dose event' % tag, len(ev) == 1, repr(len(ev)))
        if len(ev) != 1:
            continue
        e = ev[0]
        B.eq('%s: amount' % tag, e.level() * e.duration(), dose)
        B.eq('%s: start' % tag, e.start(), start)
        B.eq('%s: duration' % tag, e.duration(), dur)
        if cfg.get('period'):
            B.eq('%s: period' % tag, e.period(), kw['period'])
            B.fact('%s: number of doses' % tag,
                   e.multiplier() == (cfg.get('num') or 0),
                   repr(e.multiplier()))
        else:
            B.fact('%s: single dose' % tag,
                   e.period() == 0 and e.multiplier() == 0)
        B.fact('%s: the protocol is on the live simulator' % tag,
               reg is m._simulator._protocol)


def jobs(tier):
    out = []
    q = tier == 'quick'
    kinds = 'DBXNM'
    k = 0
    for a in itertools.product(kinds, repeat=2 if q else 3):
        for order in ('blocks', 'interleaved', 'reversed blocks'):
            if q and (k % 3) != ('blocks', 'interleaved',
                                 'reversed blocks').index(order):
                continue
            out.append(('dataset', 'case_dataset', dict(
                direct=(k % 2 == 0), layout=[list(a), ['B', 'M', 'D']],
                order=order, ids=[['a', 'b'], [2, 1], ['10', '9']][k % 3],
                duration_column=(k % 5 != 4),
                then_individually=[[], [1, 0], [0], [0, 1, 0]][k % 4],
                population=(k % 4 == 0)), FACADE))
        k += 1
    out.append(('dataset', 'case_dataset', dict(
        direct=True, layout=[['D', 'B'], ['M'], ['B', 'X', 'D']],
        order='interleaved', ids=[3, 1, 2], then_individually=[1, 0, 1]),
        FACADE))
    # call histories: an earlier dataset on the same controller
    for k, (lay, before, und) in enumerate((
            ([['M', 'D'], ['B', 'M']], [['D', 'B', 'M'], ['M', 'D']], False),
            ([['M', 'D'], ['M']], [['D', 'M'], ['B', 'D', 'M']], False),
            ([['M', 'D'], ['B', 'M']], [['D', 'B', 'M'], ['M', 'D']], True),
            ([['M', 'M'], ['M']], [['M', 'B'], ['D', 'D', 'M']], True))):
        for pop in (False, True):
            out.append(('dataset', 'case_dataset', dict(
                direct=(k % 2 == 0), layout=lay, before=before, undosed=und,
                order='blocks', ids=[['a', 'b'], [2, 1]][k % 2],
                then_individually=[1, 0], population=pop), FACADE))
    for direct in (True, False):
        for num in (None, 0, 1, 2, 3):
            for period in (False, True):
                out.append(('regimen', 'case_regimen', dict(
                    direct=direct, num=num, period=period), FACADE))
    lib = [('one_compartment_pk_model', 'central', 'drug_amount'),
           ('erlotinib_tumour_growth_inhibition_model', 'central',
            'drug_amount'),
           ('erlotinib_tumour_growth_inhibition_model', 'global',
            'tumour_volume')]
    for (mod, comp, var) in lib:
        for direct in (True, False):
            out.append(('surgery', 'case_surgery', dict(
                model=mod, comp=comp, var=var, direct=direct), FACADE))
    for comp, var in (('dose', 'drug_amount'), ('central', 'drug_c_amount')):
        for direct in (True, False):
            out.append(('surgery', 'case_surgery', dict(
                model='two_comp_dose', comp=comp, var=var, direct=direct),
                FACADE))
    gen = []
    for ns in ((1, 2) if q else (1, 2, 3, 4)):
        for states in itertools.permutations(c09.STATE_IDS[:ns]):
            gen.append(dict(states=list(states), n_const=2, n_inter=1))
    for spec in gen:
        for s in spec['states']:
            for direct in (True, False):
                out.append(('surgery', 'case_surgery', dict(
                    model='generated', spec=spec, var=s, direct=direct),
                    FACADE))
                for s0 in spec['states']:
                    if s0 != s:
                        out.append(('surgery', 'case_surgery', dict(
                            model='generated', spec=spec, var=s,
                            first_var=s0, direct=direct), FACADE))
    evsets = [[(0.0, 0, 0), (12.0, 0, 0)], [(0.0, 0, 0), (2.0, 1.0, 3)],
              [(1.0, 0, 0), (0.5, 2.0, 2), (30.0, 0, 0)],
              [(5.0, 0, 0), (1.0, 0, 0), (3.0, 0, 0)]]
    for ev in evsets:
        for ft in (None, 2.5, 12.0, 40.0, 0.25):
            out.append(('table', 'case_table_multi', dict(
                events=ev, final_time=ft), FACADE))
    for k, wk in enumerate(('population', 'prior', 'posterior', 'pam')):
        for ev in (evsets[1], evsets[2], [(0.5, 2.0, 0)]):
            for ft in (None, 2.5, 7.0):
                out.append(('table', 'case_table_multi', dict(
                    events=ev, final_time=ft, wrapper=wk), FACADE))
    for wkind in ('predictive', 'population', 'prior', 'posterior'):
        for period, num in ((False, None), (True, None), (True, 2)):
            out.append(('wrappers', 'case_wrappers', dict(
                wrapper=wkind, period=period, num=num,
                calls=1 + (num == 2)), FACADE))
    for directs in ([True, True], [True, False], [False, True, True]):
        for period, num in ((False, None), (True, 3)):
            out.append(('wrappers', 'case_wrappers', dict(
                wrapper='pam', directs=directs, period=period, num=num,
                calls=1 + int(period)), FACADE))
    for mult in (0, 1, 2, 3):
        out.append(('table', 'case_table', dict(
            multiplier=mult, periodic=True), FACADE))
    out.append(('table', 'case_table', dict(multiplier=0, periodic=False),
                FACADE))
    return out


BOUNDS = dict(
    quick='num in {None,0,1,2,3}, with/without period, direct and indirect '
          'route; surgery on every dosable state of 2 library models, of a '
          'model that already has a compartment called dose, and of '
          'generated models with 1..2 states (also after an earlier '
          'administration into the other state); regimen tables for multiplier '
          '0..3 with at most 4 doses before final_time (floor forked up to 5); '
          'dataset regimens (8 of them after an earlier dosed dataset on the '
          'same controller, 4 of those with an undosed last dataset): 2-3 individuals, every pair of row kinds {dose '
          'with duration, bolus, dose without time, duration without dose, '
          'measurement} for the first individual, block / interleaved / '
          'reversed row order, string and integer IDs, with and without a '
          'duration column, the regimen inside every likelihood the '
          'controller hands out; a regimen set through 5 kinds of '
          'predictive-model wrappers (2-3 averaged models)',
    thorough='generated models with up to 4 states in every declaration '
             'order; every triple of dataset row kinds',
    outside='the integrator: "receives drug at rate dose/duration" is decided '
            'for what chi hands to the solver (protocol + equations), under '
            'myokit\'s documented event semantics')
TRUSTED = ['myokit model / expression classes (real)', 'protocol stub = '
           'myokit.Protocol event semantics as documented', 'z3']
