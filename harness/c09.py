"""C09 - simulation returns the ODE solution and its derivatives in parameter
order (the binding chi owns; the integrator is a stub)."""
import itertools
import os
import shutil
import tempfile

import numpy as np

import chi
import chi.library

from chisym import facade_myokit as fm
from chisym import terms as T
from chisym.sym import Sym

from . import popspec as ps

EXPLANATION = (
    'chi.SBMLModel / PKPDModel / ReducedMechanisticModel are run over a stub '
    'of myokit.Simulation that returns the uninterpreted solution functional '
    'F[model|output|t](initial values in the solver\'s own state order, '
    'literal constants, protocol).  For generated SBML models with every '
    'declaration order of 1..3 states (alphabetical != declaration order), '
    'constants, intermediate and derived variables, every output selection '
    'and renaming, and for the library models, the term returned by '
    'simulate(p, t)[o, k] is decided equal to F for output o at t_k with '
    'p_i bound to the variable behind the i-th published parameter name '
    '(states first, then literal constants, each alphabetically); the '
    'sensitivity array entry [k, o, i] to the partial derivative with '
    'respect to exactly the i-th (free) parameter; reset precedes every run. '
    'The right-hand sides of the shipped library models are translated from '
    'the myokit expression trees and decided equal to the documented '
    'equations.')

FACADE = {'facade': {'myokit': True}, 'diffcheck': True}


# ---------------------------------------------------------------- SBML writer
def _mathml(e):
    if isinstance(e, str):
        return '<ci>%s</ci>' % e
    if isinstance(e, (int, float)):
        return '<cn>%r</cn>' % float(e)
    op = {'*': 'times', '+': 'plus', '-': 'minus', '/': 'divide'}[e[0]]
    return '<apply><%s/>%s</apply>' % (
        op, ''.join(_mathml(a) for a in e[1:]))


def sbml_text(params, rules, inits=()):
    M = 'xmlns="http://www.w3.org/1998/Math/MathML"'
    ps_ = ''.join(
        '<parameter id="%s" %s constant="%s"/>' % (
            i, ('value="%r"' % float(v)) if v is not None else '',
            'true' if c else 'false') for i, v, c in params)
    rs = ''.join(
        '<%sRule variable="%s"><math %s>%s</math></%sRule>' % (
            k, v, M, _mathml(e), k) for k, v, e in rules)
    ia = ''.join(
        '<initialAssignment symbol="%s"><math %s>%s</math>'
        '</initialAssignment>' % (v, M, _mathml(e)) for v, e in inits)
    return ('<?xml version="1.0" encoding="UTF-8"?><sbml xmlns="http://www.'
            'sbml.org/sbml/level3/version2/core" level="3" version="2">'
            '<model id="gen"><listOfParameters>%s</listOfParameters>'
            '<listOfInitialAssignments>%s</listOfInitialAssignments>'
            '<listOfRules>%s</listOfRules></model></sbml>' % (ps_, ia, rs))


STATE_IDS = ['zeta', 'beta', 'mu', 'delta']   # alphabetical != listed order
CONST_IDS = ['rate', 'alpha', 'kappa']
INTER_IDS = ['mid', 'aux']


def generated(spec):
    """spec: states (tuple of ids in declaration order), n_const, n_inter,
    derived (bool) -> SBML text"""
    states = list(spec['states'])
    consts = spec.get('const_ids', CONST_IDS)[:spec['n_const']]
    inters = INTER_IDS[:spec['n_inter']]
    params = []
    # declaration order: interleave constants and states
    decl = []
    for i in range(max(len(states), len(consts))):
        if i < len(consts):
            decl.append(('c', consts[i]))
        if i < len(states):
            decl.append(('s', states[i]))
    for kind, n in decl:
        if kind == 's':
            params.append((n, 1.0 + 0.5 * states.index(n), False))
        else:
            params.append((n, 2.0 + consts.index(n), True))
    for n in inters:
        params.append((n, None, False))
    rules = []
    for j, n in enumerate(inters):
        rules.append(('assignment', n,
                      ('+', states[j % len(states)],
                       consts[0] if consts else 1.0)))
    for j, s in enumerate(states):
        rhs = ('-', ('*', consts[j % len(consts)] if consts else 1.0,
                     states[(j + 1) % len(states)]), s)
        if inters:
            rhs = ('+', rhs, inters[j % len(inters)])
        rules.append(('rate', s, rhs))
    inits = []
    if spec.get('derived') and consts:
        params.append(('der', None, True))
        inits.append(('der', ('*', consts[0], 2.0)))
    return sbml_text(params, rules, inits)


_TMP = [None]


def _write(text, name):
    if _TMP[0] is None or not os.path.isdir(_TMP[0]):
        base = os.environ.get('CHIVERIF_TMP')
        if base and os.path.isdir(base):
            _TMP[0] = base
        else:
            _TMP[0] = tempfile.mkdtemp(prefix='chiverif_sbml_')
    # worker processes share the directory: write under a private name and
    # rename (atomic), so that no reader ever sees a half-written file
    path = os.path.join(_TMP[0], name)
    tmp = '%s.%d.tmp' % (path, os.getpid())
    with open(tmp, 'w') as f:
        f.write(text)
    os.replace(tmp, path)
    return path


def cleanup():
    if _TMP[0] and os.path.isdir(_TMP[0]):
        shutil.rmtree(_TMP[0], ignore_errors=True)
    _TMP[0] = None


# ---------------------------------------------------------------- reference
def reference_args(B, sim_model, names_to_values):
    """argument list of F in the stub's canonical order, built from a map
    myokit qname -> value"""
    states = [v.qname() for v in sim_model.states()]
    consts = sorted(v.qname() for v in sim_model.variables(const=True)
                    if v.is_literal())
    return states, consts, [names_to_values[n] for n in states + consts]


def check_binding(B, m, tag, times, rename=None, outputs=None, reduced=None,
                  protocol=None):
    """m: chi.SBMLModel-like (already configured).  rename: dict public
    parameter renames already applied (myokit name -> public)."""
    sim = m._simulator
    model = sim._model
    sig = fm.model_sig(model)
    pub = m.parameters()
    n = m.n_parameters()
    B.fact('%s: n_parameters = len(parameters())' % tag, n == len(pub))
    inv = {v: k for k, v in (rename or {}).items()}
    myo = [inv.get(p, p) for p in pub]
    st = sorted(v.qname() for v in model.states())
    co = sorted(v.qname() for v in model.variables(const=True)
                if v.is_literal())
    if any(x != x.lower() for x in st + co):
        # names differing in capitalisation: which alphabetical order is
        # used is not part of the claim, only states first, constants after
        ok = sorted(myo[:len(st)]) == st and sorted(myo[len(st):]) == co
        B.fact('%s: parameters = the states, then the literal constants'
               % tag, ok, '%r vs %r' % (myo, st + co))
    else:
        ok = myo == st + co
        B.fact('%s: parameters = sorted states then sorted literal constants'
               % tag, ok, '%r vs %r' % (myo, st + co))
    if not ok:
        return
    p = [B.var('p%d' % i) for i in range(n)]
    val = {myo[i]: p[i] for i in range(n)}
    states, consts, args = reference_args(B, model, val)
    pname, pargs = fm.protocol_args(protocol)
    args = args + list(pargs)
    outs_pub = m.outputs()
    outs = list(m._output_names)
    if outputs is not None:
        B.fact('%s: outputs in the selected order' % tag, outs == outputs,
               '%r vs %r' % (outs, outputs))
    pa = ps.arr(B, p)
    n_calls = len(sim.calls)
    m.enable_sensitivities(False)
    sim = m._simulator
    n_calls = len(sim.calls)
    y = m.simulate(pa, times)
    B.fact('%s: result shape' % tag, np.shape(y) == (len(outs), len(times)),
           repr(np.shape(y)))
    for o, on in enumerate(outs):
        for k, t in enumerate(times):
            B.eq('%s: simulate[%s, t=%s] = F at the named binding'
                 % (tag, on, t), y[o][k],
                 B.uf('F[%s|%s|%r|%s]' % (sig, on, round(float(t), 9),
                                          pname), *args))
    calls = [c[0] for c in sim.calls[n_calls:]]
    B.fact('%s: reset precedes state/constants/run' % tag,
           calls[:1] == ['reset'] and calls.count('run') == 1 and
           calls.index('run') == len(calls) - 1 and
           'set_state' in calls and
           calls.count('set_constant') == len(consts), repr(calls))
    # sensitivities
    m.enable_sensitivities(True)
    sim = m._simulator
    y2, s = m.simulate(pa, times)
    B.fact('%s: sensitivity shape' % tag,
           np.shape(s) == (len(times), len(outs), n), repr(np.shape(s)))
    if np.shape(s) == (len(times), len(outs), n):
        order = states + consts
        for k, t in enumerate(times):
            for o, on in enumerate(outs):
                B.eq('%s: value with sensitivities[%s, t=%s]' % (tag, on, t),
                     y2[o][k], y[o][k])
                for i in range(n):
                    j = order.index(myo[i])
                    B.eq('%s: sens[t=%s, %s, d/d %s]' % (tag, t, on, pub[i]),
                         s[k][o][i],
                         B.uf('D%d:F[%s|%s|%r|%s]' % (
                             j, sig, on, round(float(t), 9), pname), *args))
    # a subset requested directly, named in another order than published:
    # the columns follow the published order of the selected parameters
    if n >= 3:
        sub = [0, n - 1, 1]                      # caller's order
        m.enable_sensitivities(True, parameter_names=[pub[i] for i in sub])
        y6, s6 = m.simulate(pa, times)
        sel = sorted(sub)
        B.fact('%s: subset sensitivity shape' % tag,
               np.shape(s6) == (len(times), len(outs), len(sel)),
               repr(np.shape(s6)))
        if np.shape(s6) == (len(times), len(outs), len(sel)):
            order = states + consts
            for k, t in enumerate(times):
                for o, on in enumerate(outs):
                    for qi, i in enumerate(sel):
                        j = order.index(myo[i])
                        B.eq('%s: subset (named out of order) sens[t=%s, %s, '
                             'd/d %s]' % (tag, t, on, pub[i]), s6[k][o][qi],
                             B.uf('D%d:F[%s|%s|%r|%s]' % (
                                 j, sig, on, round(float(t), 9), pname),
                                 *args))
        # ... and asking for everything afterwards gives everything
        m.enable_sensitivities(True)
        y7, s7 = m.simulate(pa, times)
        B.fact('%s: all sensitivities after a subset' % tag,
               np.shape(s7) == (len(times), len(outs), n),
               repr(np.shape(s7)))
    if len(outs) >= 2:
        # the same outputs selected in another order while sensitivities are
        # on: values and derivative rows follow the new order (whether the
        # call leaves the sensitivities on or, as documented, resets them)
        m.enable_sensitivities(True)
        new = outs[::-1]
        m.set_outputs(list(new))
        B.fact('%s: outputs re-ordered' % tag, list(m._output_names) == new,
               repr(m._output_names))
        res = m.simulate(pa, times)
        if m.has_sensitivities():
            y8, s8 = res
        else:
            y8, s8 = res, None
        B.fact('%s: re-ordered outputs: result shape' % tag,
               np.shape(y8) == (len(new), len(times)), repr(np.shape(y8)))
        if np.shape(y8) == (len(new), len(times)):
            for o, on in enumerate(new):
                for k, t in enumerate(times):
                    B.eq('%s: re-ordered outputs: simulate[%s, t=%s]'
                         % (tag, on, t), y8[o][k],
                         B.uf('F[%s|%s|%r|%s]' % (
                             sig, on, round(float(t), 9), pname), *args))
        if s8 is not None:
            B.fact('%s: re-ordered outputs: sensitivity shape' % tag,
                   np.shape(s8) == (len(times), len(new), n),
                   repr(np.shape(s8)))
            if np.shape(s8) == (len(times), len(new), n):
                order = states + consts
                for k, t in enumerate(times):
                    for o, on in enumerate(new):
                        for i in range(n):
                            j = order.index(myo[i])
                            B.eq('%s: re-ordered outputs: sens[t=%s, %s, '
                                 'd/d %s]' % (tag, t, on, pub[i]),
                                 s8[k][o][i],
                                 B.uf('D%d:F[%s|%s|%r|%s]' % (
                                     j, sig, on, round(float(t), 9), pname),
                                     *args))
        m.set_outputs(list(outs))
    m.enable_sensitivities(False)
    if reduced:
        r = chi.ReducedMechanisticModel(m)
        fixed = {pub[i]: B.var('fix%d' % i) for i in reduced}
        r.fix_parameters(fixed)
        free = [i for i in range(n) if i not in reduced]
        B.fact('%s: reduced names = free names in order' % tag,
               r.parameters() == [pub[i] for i in free])
        q = [p[i] for i in free]
        val2 = dict(val)
        for i in reduced:
            val2[myo[i]] = fixed[pub[i]]
        _, _, args2 = reference_args(B, model, val2)
        args2 = args2 + list(pargs)
        y3 = r.simulate(ps.arr(B, q), times)
        for o, on in enumerate(outs):
            for k, t in enumerate(times):
                B.eq('%s: reduced simulate[%s, t=%s]' % (tag, on, t),
                     y3[o][k], B.uf('F[%s|%s|%r|%s]' % (
                         sig, on, round(float(t), 9), pname), *args2))
        r.enable_sensitivities(True)
        y4, s4 = r.simulate(ps.arr(B, q), times)
        B.fact('%s: reduced sensitivity shape' % tag,
               np.shape(s4) == (len(times), len(outs), len(free)),
               repr(np.shape(s4)))
        if np.shape(s4) == (len(times), len(outs), len(free)):
            order = states + consts
            for k, t in enumerate(times):
                for o, on in enumerate(outs):
                    for qi, i in enumerate(free):
                        j = order.index(myo[i])
                        B.eq('%s: reduced sens[t=%s, %s, d/d %s]' % (
                            tag, t, on, pub[i]), s4[k][o][qi],
                            B.uf('D%d:F[%s|%s|%r|%s]' % (
                                j, sig, on, round(float(t), 9), pname),
                                *args2))
        # histories with the sensitivities left switched on: swap which
        # parameter is fixed in one call (same number fixed), then release
        # everything; the array must follow the free set of the moment
        state = {i: fixed[pub[i]] for i in reduced}
        steps = []
        if free:
            steps.append(('swap', {pub[reduced[0]]: None,
                                   pub[free[0]]: B.var('fixswap')}))
        steps.append(('release all', None))
        for label, d in steps:
            if d is None:
                d = {pub[i]: None for i in state}
            r.fix_parameters(d)
            for nm, v in d.items():
                i = pub.index(nm)
                if v is None:
                    state.pop(i, None)
                else:
                    state[i] = v
            free2 = [i for i in range(n) if i not in state]
            B.fact('%s: after %s: names = free names in order' % (tag, label),
                   r.parameters() == [pub[i] for i in free2],
                   repr(r.parameters()))
            B.fact('%s: after %s: sensitivities still enabled' % (tag, label),
                   r.has_sensitivities())
            if not r.has_sensitivities():
                break
            q2 = [p[i] for i in free2]
            val3 = dict(val)
            for i, v in state.items():
                val3[myo[i]] = v
            _, _, args3 = reference_args(B, model, val3)
            args3 = args3 + list(pargs)
            y5, s5 = r.simulate(ps.arr(B, q2), times)
            B.fact('%s: after %s: sensitivity shape' % (tag, label),
                   np.shape(s5) == (len(times), len(outs), len(free2)),
                   repr(np.shape(s5)))
            if np.shape(s5) != (len(times), len(outs), len(free2)):
                continue
            for k, t in enumerate(times):
                for o, on in enumerate(outs):
                    for qi, i in enumerate(free2):
                        j = order.index(myo[i])
                        B.eq('%s: after %s: sens[t=%s, %s, d/d %s]' % (
                            tag, label, t, on, pub[i]), s5[k][o][qi],
                            B.uf('D%d:F[%s|%s|%r|%s]' % (
                                j, sig, on, round(float(t), 9), pname),
                                *args3))
        r.enable_sensitivities(False)


def case_generated(B, cfg):
    path = _write(generated(cfg), 'm_%s_%d_%d_%d%s.xml' % (
        '-'.join(cfg['states']), cfg['n_const'], cfg['n_inter'],
        int(bool(cfg.get('derived'))),
        '_' + '-'.join(cfg['const_ids']) if cfg.get('const_ids') else ''))
    try:
        m = chi.SBMLModel(path)
    finally:
        pass
    times = cfg.get('times', [0.5, 1.0, 2.5])
    if cfg.get('mixed_case'):
        # (which of the possible alphabetical orders applies to names that
        # differ in capitalisation is not part of the claim: every binding
        # below is decided through the published names)
        B.fact('default outputs = the states',
               sorted(m.outputs()) == sorted('global.' + s
                                             for s in cfg['states']),
               repr(m.outputs()))
    else:
        B.fact('default outputs = sorted states',
               m.outputs() == sorted('global.' + s for s in cfg['states']),
               repr(m.outputs()))
    rename = None
    if cfg.get('rename'):
        pub = m.parameters()
        rename = {pub[0]: 'first parameter', pub[-1]: 'last parameter'}
        m.set_parameter_names(dict(rename))
    outputs = None
    if cfg.get('outputs') is not None:
        allv = ['global.' + s for s in cfg['states']] + \
            ['global.' + s for s in INTER_IDS[:cfg['n_inter']]]
        outputs = [allv[i % len(allv)] for i in cfg['outputs']]
        m.set_outputs(outputs)
        if cfg.get('rename'):
            m.set_output_names({outputs[0]: 'renamed output'})
            B.fact('output renamed', m.outputs()[0] == 'renamed output')
    check_binding(B, m, 'generated', times, rename=rename, outputs=outputs,
                  reduced=cfg.get('reduced'))
    # a copy behaves identically
    c = m.copy()
    check_binding(B, c, 'copy', times[:1], rename=rename, outputs=outputs)


# ---------------------------------------------------------------- library
def expr_term(B, e, env):
    import myokit
    if isinstance(e, myokit.Name):
        v = e.var()
        q = v.qname()
        if q in env:
            return env[q]
        if v.is_intermediary() or (v.is_constant() and not v.is_literal()):
            return expr_term(B, v.rhs(), env)
        raise KeyError(q)
    if isinstance(e, myokit.Number):
        return e.eval()
    if isinstance(e, myokit.PrefixMinus):
        return -expr_term(B, e[0], env)
    if isinstance(e, myokit.PrefixPlus):
        return expr_term(B, e[0], env)
    a, b = expr_term(B, e[0], env), expr_term(B, e[1], env)
    if isinstance(e, myokit.Plus):
        return a + b
    if isinstance(e, myokit.Minus):
        return a - b
    if isinstance(e, myokit.Multiply):
        return a * b
    if isinstance(e, myokit.Divide):
        return a / b
    raise TypeError(type(e))


def case_library(B, cfg):
    lib = chi.library.ModelLibrary()
    name = cfg['model']
    m = getattr(lib, name)()
    model = m._simulator._model
    env = {}
    for v in model.states():
        env[v.qname()] = B.var('S_' + v.qname().replace('.', '_'))
    for v in model.variables(const=True):
        if v.is_literal():
            env[v.qname()] = B.var('K_' + v.qname().replace('.', '_'))
    rhs = {v.qname(): expr_term(B, v.rhs(), env) for v in model.states()}
    g = lambda q: env[q]
    if name == 'one_compartment_pk_model':
        A, V, ke = g('central.drug_amount'), g('central.size'), \
            g('global.elimination_rate')
        B.assume(V > 0)
        B.eq('dA/dt = -k_e A', rhs['central.drug_amount'], -ke * A)
        C = expr_term(B, model.get('central.drug_concentration').rhs(), env)
        B.eq('C = A / V', C, A / V)
        B.fact('library output is the concentration',
               m.outputs() == ['central.drug_concentration'])
    elif name == 'tumour_growth_inhibition_model_koch':
        VT, l0, l1, k, C = g('global.tumour_volume'), g('global.lambda_0'), \
            g('global.lambda_1'), g('global.kappa'), \
            g('global.drug_concentration')
        B.assume(2 * l0 * VT + l1 > 0)
        B.eq('dV_T/dt (Koch)', rhs['global.tumour_volume'],
             2 * l0 * l1 * VT / (2 * l0 * VT + l1) - k * C * VT)
    elif name == 'tumour_growth_inhibition_model_koch_reparametrised':
        VT, lam, vc, k, C = g('global.tumour_volume'), g('global.lambda'), \
            g('global.critical_volume'), g('global.kappa'), \
            g('global.drug_concentration')
        B.assume(vc > 0)
        B.assume(VT / vc + 1 > 0)
        B.eq('dV_T/dt (reparametrised)', rhs['global.tumour_volume'],
             lam * VT / (VT / vc + 1) - k * C * VT)
    else:
        A, V, ke = g('central.drug_amount'), g('central.size'), \
            g('global.elimination_rate')
        VT, lam, vc, k = g('global.tumour_volume'), g('global.lambda'), \
            g('global.critical_volume'), g('global.kappa')
        B.assume(V > 0)
        B.assume(vc > 0)
        B.assume(VT / vc + 1 > 0)
        B.eq('dA/dt = -k_e A', rhs['central.drug_amount'], -ke * A)
        B.eq('dV_T/dt with C = A/V', rhs['global.tumour_volume'],
             lam * VT / (VT / vc + 1) - k * (A / V) * VT)
    check_binding(B, m, 'library', [0.5, 2.0], outputs=None,
                  reduced=[0] if m.n_parameters() > 1 else None)


def case_dosed(B, cfg):
    """library PKPD models with a route of administration (the indirect one
    adds a dose compartment with two more parameters) and a regimen: the
    binding of the vector, and of sensitivity subsets through a reduced
    model, on the modified model"""
    m = getattr(chi.library.ModelLibrary(), cfg['model'])()
    if cfg.get('rename_before'):
        m.set_parameter_names({m.parameters()[-1]: 'renamed early'})
    m.set_administration('central', direct=cfg['direct'])
    rename = None
    if cfg.get('rename_after'):
        pub = m.parameters()
        rename = {pub[1]: 'renamed late'}
        m.set_parameter_names(dict(rename))
    m.set_dosing_regimen(B.var('dose'), start=B.var('start'),
                         period=B.var('period'), num=2)
    n = m.n_parameters()
    check_binding(B, m, 'dosed', [0.5, 2.0], rename=rename,
                  reduced=sorted({i % n for i in cfg['reduced']}),
                  protocol=m.dosing_regimen())


def jobs(tier):
    out = []
    q = tier == 'quick'
    for name in ('one_compartment_pk_model',
                 'erlotinib_tumour_growth_inhibition_model'):
        for direct in (True, False):
            for red in ([0], [1], [0, 2], [1, 3]):
                out.append(('dosed', 'case_dosed', dict(
                    model=name, direct=direct, reduced=red,
                    rename_after=(red == [1, 3])), FACADE))
    for name in ('one_compartment_pk_model',
                 'tumour_growth_inhibition_model_koch',
                 'tumour_growth_inhibition_model_koch_reparametrised',
                 'erlotinib_tumour_growth_inhibition_model'):
        out.append(('library', 'case_library', dict(model=name), FACADE))
    k = 0
    for ns in ((1, 2, 3) if q else (1, 2, 3, 4)):
        for states in itertools.permutations(STATE_IDS[:ns]):
            for n_const in ([0, 2] if q else [0, 1, 2, 3]):
                for n_inter in ([0, 1] if q else [0, 1, 2]):
                    for derived in (False, True):
                        if derived and n_const == 0:
                            continue
                        sels = [None, [0], [ns, 0]] if q else \
                            [None, [0], [1], [ns, 0], [0, ns + 1], [1, 0]]
                        for sel in sels:
                            if q and (k % 3) and sel is not None:
                                k += 1
                                continue
                            k += 1
                            red = None
                            if k % 4 == 0 and ns + n_const >= 2:
                                red = [0] if ns + n_const < 3 else [0, 2]
                            out.append(('generated', 'case_generated', dict(
                                states=list(states), n_const=n_const,
                                n_inter=n_inter, derived=derived,
                                outputs=sel, rename=(k % 5 == 0),
                                reduced=red), FACADE))
    # names that differ in capitalisation (code-point order, case-insensitive
    # order and declaration order all differ)
    mixed = [['Zeta', 'beta'], ['beta', 'Zeta'], ['mu', 'Beta', 'zeta'],
             ['Zeta', 'mu', 'Beta'], ['delta', 'Mu', 'beta', 'Zeta']]
    for k, states in enumerate(mixed if not q else mixed[:4]):
        for n_const in (0, 2, 3):
            out.append(('generated', 'case_generated', dict(
                states=states, n_const=n_const, n_inter=k % 2,
                derived=(n_const == 3),
                const_ids=['Rate', 'alpha', 'Kappa'], mixed_case=True,
                outputs=[None, [0], [len(states) - 1, 0]][(k + n_const) % 3],
                rename=(k == 1),
                reduced=[0, 2] if len(states) + n_const >= 3 and k % 2
                else None), FACADE))
    return out


BOUNDS = dict(
    quick='4 library models; 2 of them with direct / indirect administration '
          'and a regimen, 4 fixed-parameter subsets each; generated SBML '
          'models with 1..3 states in every '
          'declaration order, 0 or 2 literal constants, 0..1 intermediate '
          'variables, with/without a derived constant; a third of the output '
          'selections (size <= 2, states and intermediates), renamings, '
          'reduced models; 12 models whose state / constant names differ in '
          'capitalisation; 3 time points',
    thorough='1..4 states in every declaration order, 0..3 constants, 0..2 intermediates, 6 output selections each',
    outside='the integrator itself (myokit/sundials, absent in this sandbox) '
            'is an uninterpreted functional: what is decided is that chi '
            'hands the solver the right values under the right names and '
            'returns its results in the published order')
TRUSTED = ['myokit model classes and SBML importer (pure Python, real)',
           'the Simulation stub contract (chisym/facade_myokit.py)', 'z3']
