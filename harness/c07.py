"""C07 - covariate models shift the selected population parameters
linearly."""
import itertools

import numpy as np

import chi

from chisym.sym import Sym

from . import hier
from . import popspec as ps

EXPLANATION = (
    'chi.CovariatePopulationModel (around every supported population model) '
    'and chi.LinearCovariateModel are executed on symbolic vartheta_0, beta, '
    'covariates and individual values for every selection of transformed '
    'parameters (all ordered lists of 1..3 index pairs incl. duplicates and '
    'unsorted orders, plus the constructor default).  The oracle parses each '
    'beta *name* into (parameter, dimension, covariate), builds vartheta_i = '
    'vartheta_0 + sum_c beta_c chi_ic and calls the underlying model once '
    'per individual; z3 decides equality of log-likelihood, individual '
    'parameters, samples (RNG stub) and of the sensitivities with the '
    'derivative of the value term; zero covariates / zero beta reduce to the '
    'underlying model.')

KINDS = ['gaussian', 'gaussian_nc', 'lognormal', 'lognormal_nc', 'truncgauss',
         'pooled']


def parse_beta_names(names, pop_names, cov_names, n_pop, n_dim):
    """beta name '<population parameter name> <covariate name>' ->
    (flat population parameter index, covariate index)."""
    out = []
    for n in names:
        hit = None
        for pi, pn in enumerate(pop_names):
            for ci, cn in enumerate(cov_names):
                if n == pn + ' ' + cn:
                    hit = (pi, ci)
        if hit is None:
            return None
        out.append(hit)
    return out


def _setup(B, cfg):
    kind, n_dim, n_cov, n_ids = (cfg['kind'], cfg['n_dim'], cfg['n_cov'],
                                 cfg['n_ids'])
    base = ps.make(kind, n_dim, n_ids)
    m = chi.CovariatePopulationModel(
        base, chi.LinearCovariateModel(n_cov=n_cov))
    sel = cfg.get('selection')
    if sel is not None:
        m.set_population_parameters(sel)
    if cfg.get('dim_names'):
        # the dimensions are named after the selection was made (what a
        # hierarchical likelihood / the controller does); None = back to the
        # default names
        dn = None if cfg['dim_names'] == 'default' else [
            'dim %s' % 'xyz'[d] for d in range(n_dim)]
        m.set_dim_names(dn)
        base.set_dim_names(dn)     # (the reference copy of the wrapped model)
    return base, m


def case_cov(B, cfg):
    kind, n_dim, n_cov, n_ids = (cfg['kind'], cfg['n_dim'], cfg['n_cov'],
                                 cfg['n_ids'])
    P = ps.p_per_dim(kind)
    n_pop = P * n_dim
    try:
        base, m = _setup(B, cfg)
    except Exception as e:
        B.fact('no-exception:set_population_parameters', False, repr(e))
        return
    sel = cfg.get('selection')
    want_sel = sorted(set((p, d) for p, d in sel)) if sel is not None else \
        [(p, d) for p in range(P) for d in range(n_dim)]
    names = m.get_parameter_names()
    pop_names = base.get_parameter_names()
    cov_names = m.get_covariate_names()
    B.fact('n_parameters = n_pop + n_selected * n_cov',
           m.n_parameters() == n_pop + len(want_sel) * n_cov,
           '%d vs %d' % (m.n_parameters(), n_pop + len(want_sel) * n_cov))
    B.fact('len(names) = n_parameters', len(names) == m.n_parameters())
    B.fact('leading names = population names', names[:n_pop] == pop_names)
    parsed = parse_beta_names(names[n_pop:], pop_names, cov_names, n_pop,
                              n_dim)
    B.fact('beta names identify (parameter, dimension, covariate)',
           parsed is not None, repr(names[n_pop:]))
    if parsed is None or len(names) != m.n_parameters():
        return
    got = sorted(set((pi // n_dim, pi % n_dim) for pi, ci in parsed))
    B.fact('named selection = requested selection', got == want_sel,
           '%r vs %r' % (got, want_sel))
    B.fact('every (selected parameter, covariate) named once',
           len(set(parsed)) == len(parsed) == len(want_sel) * n_cov,
           repr(parsed))
    th0 = ps.theta_vars(B, kind, n_dim, n_ids, prefix='th')
    beta = [B.var('beta%d' % j) for j in range(len(parsed))]
    if cfg.get('zero') == 'beta':
        beta = [0.0 for _ in beta]
    chis = [[B.var('chi%d_%d' % (i, c)) for c in range(n_cov)]
            for i in range(n_ids)]
    if cfg.get('zero') == 'chi':
        chis = [[0.0] * n_cov for _ in range(n_ids)]
    # names-driven vartheta_i (flat, documented parameter-major order)
    vth = []
    for i in range(n_ids):
        v = list(th0)
        for (pi, ci), b in zip(parsed, beta):
            v[pi] = v[pi] + b * chis[i][ci]
        vth.append(v)
    obs = [[B.var('x%d_%d' % (i, d)) for d in range(n_dim)]
           for i in range(n_ids)]
    if kind == 'pooled':
        obs = [[vth[i][d] for d in range(n_dim)] for i in range(n_ids)]
    for i in range(n_ids):
        ps.assume_support(B, kind, ps.theta_matrix(vth[i], kind, n_dim),
                          [obs[i]])
    theta = th0 + beta
    cov = ps.arr(B, chis)
    one = ps.make(kind, n_dim, 1)
    if kind == 'pooled' and not B.symbolic:
        # float replay: the pooled model accepts only individual values that
        # are *bit-identical* to the shifted parameter; take them from chi's
        # own arithmetic (the sum above may round differently)
        p0 = m.compute_individual_parameters(
            ps.arr(B, theta), ps.arr(B, obs), covariates=cov)
        obs = [[float(p0[i][d]) for d in range(n_dim)] for i in range(n_ids)]

    def value(xs):
        return m.compute_log_likelihood(
            ps.arr(B, xs), ps.arr(B, obs), covariates=cov)
    # reference: the underlying model, once per individual
    ref = 0
    for i in range(n_ids):
        ref = ref + one.compute_log_likelihood(
            ps.arr(B, vth[i]), ps.arr(B, [obs[i]]))
    v = value(theta)
    B.eq('log-likelihood = sum_i underlying(vartheta_i)', v, ref)
    if cfg.get('zero'):
        B.eq('zero %s: coincides with the underlying model' % cfg['zero'], v,
             ps.make(kind, n_dim, n_ids).compute_log_likelihood(
                 ps.arr(B, th0), ps.arr(B, obs)))
    # individual parameters
    eta = obs
    psi = m.compute_individual_parameters(
        ps.arr(B, theta), ps.arr(B, eta), covariates=cov)
    psi_ref = []
    for i in range(n_ids):
        r = one.compute_individual_parameters(
            ps.arr(B, vth[i]), ps.arr(B, [eta[i]]))
        psi_ref.append(list(r[0]))
    B.eq_array('individual parameters = underlying(vartheta_i)', psi, psi_ref)
    # return_eta=True (the first call of a hierarchical likelihood): the
    # bottom-level values themselves -- for a wrapped model without
    # bottom-level parameters, the individuals' own shifted parameters
    try:
        got_eta = m.compute_individual_parameters(
            ps.arr(B, theta), ps.arr(B, eta), covariates=cov, return_eta=True)
    except Exception as e:
        got_eta = None
        B.fact('no-exception:compute_individual_parameters(return_eta=True)',
               False, repr(e))
    if got_eta is not None:
        B.fact('return_eta=True: shape', np.shape(got_eta) == (n_ids, n_dim),
               repr(np.shape(got_eta)))
        if np.shape(got_eta) == (n_ids, n_dim):
            B.eq_array('return_eta=True: bottom-level values (pooled: the '
                       'shifted parameter of each individual)', got_eta,
                       psi_ref if kind == 'pooled' else eta)
    # the caller keeps the array: a later evaluation at other parameters (and
    # other covariates) does not change what it holds
    # (population parameters shifted by one, same coefficients and
    # covariates: stays inside the support, so no new case distinctions)
    theta_o = [t + 1 for t in th0] + list(beta)
    cov_o = cov
    try:
        m.compute_individual_parameters(
            ps.arr(B, theta_o), ps.arr(B, eta), covariates=cov_o)
    except Exception as e:
        B.note('second evaluation', repr(e))
    B.eq_array('individual parameters returned earlier still hold their '
               'values after another evaluation', psi, psi_ref)
    # sensitivities = derivative of the value term (+ upstream chain rule)
    if kind != 'pooled' and not cfg.get('zero'):
        G = [[B.var('G%d_%d' % (i, d)) for d in range(n_dim)]
             for i in range(n_ids)]

        def T_(xs):
            o = [[xs[i * n_dim + d] for d in range(n_dim)]
                 for i in range(n_ids)]
            th = xs[n_ids * n_dim:]
            val = m.compute_log_likelihood(
                ps.arr(B, th), ps.arr(B, o), covariates=cov)
            p = m.compute_individual_parameters(
                ps.arr(B, th), ps.arr(B, o), covariates=cov)
            for i in range(n_ids):
                for d in range(n_dim):
                    val = val + G[i][d] * p[i][d]
            return val
        flat_obs = [x for r in obs for x in r]
        _, g = B.grad(T_, flat_obs + theta)
        score, dpsi, dth = m.compute_sensitivities(
            ps.arr(B, theta), ps.arr(B, obs), covariates=cov,
            dlogp_dpsi=ps.arr(B, G))
        B.eq('S1 score = value', score, v)
        B.eq_array('sens d/d individual values', dpsi,
                   [[g[i * n_dim + d] for d in range(n_dim)]
                    for i in range(n_ids)])
        B.eq_array('sens d/d(vartheta_0, beta)', dth, g[n_ids * n_dim:])
        score2, red = m.compute_sensitivities(
            ps.arr(B, theta), ps.arr(B, obs), covariates=cov,
            dlogp_dpsi=ps.arr(B, G), reduce=True)
        nb, nt = m.n_hierarchical_parameters(n_ids)
        B.fact('reduced length', np.shape(red) == (nb + nt,),
               '%r vs %d+%d' % (np.shape(red), nb, nt))
        if np.shape(red) == (nb + nt,):
            B.eq_array('sens (reduced)', red, g)
    if kind == 'pooled' and not cfg.get('zero'):
        # pooled dimensions have no bottom-level parameters: the individual
        # parameters are vartheta_i(theta) themselves, so the upstream
        # sensitivities reach (vartheta_0, beta) through the linear map
        G = [[B.var('G%d_%d' % (i, d)) for d in range(n_dim)]
             for i in range(n_ids)]

        def Tp(xs):
            p_ = m.compute_individual_parameters(
                ps.arr(B, xs), ps.arr(B, eta), covariates=cov)
            val = 0
            for i in range(n_ids):
                for d in range(n_dim):
                    val = val + G[i][d] * p_[i][d]
            return val
        _, g = B.grad(Tp, theta)
        score, dpsi, dth = m.compute_sensitivities(
            ps.arr(B, theta), ps.arr(B, obs), covariates=cov,
            dlogp_dpsi=ps.arr(B, G))
        B.eq('S1 score = value', score, v)
        B.eq_array('pooled: sens d/d(vartheta_0, beta) with upstream '
                   'sensitivities', dth, g)
        score2, red = m.compute_sensitivities(
            ps.arr(B, theta), ps.arr(B, obs), covariates=cov,
            dlogp_dpsi=ps.arr(B, G), reduce=True)
        nb, nt = m.n_hierarchical_parameters(n_ids)
        B.fact('reduced length', np.shape(red) == (nb + nt,),
               '%r vs %d+%d' % (np.shape(red), nb, nt))
        if np.shape(red) == (nb + nt,) and nb == 0:
            B.eq_array('pooled: sens (reduced)', red, g)
        # per-individual evaluation of the underlying model + chain rule
        for k, (pi_, ci) in enumerate(parsed):
            r = 0
            for i in range(n_ids):
                # (the pooled model reports the upstream part under the
                # individual values, which here *are* its parameter)
                _, dp, di = one.compute_sensitivities(
                    ps.arr(B, vth[i]), ps.arr(B, [obs[i]]),
                    dlogp_dpsi=ps.arr(B, [G[i]]))
                r = r + (dp[0][pi_ % n_dim] + di[pi_]) * chis[i][ci]
            B.eq('pooled: d/d beta[%d] = sum_i underlying_i * chi_i' % k,
                 dth[n_pop + k], r)
    # sampling: one draw per individual from the underlying sampler
    if B.symbolic and cfg.get('sample', True):
        rng = B.new_rng()
        S = m.sample(ps.arr(B, theta), covariates=cov, n_samples=n_ids,
                     seed=11)
        B.fact('sample shape', np.shape(S) == (n_ids, n_dim))
        rng2 = B.new_rng()
        g2 = rng2.default_rng(11)
        for i in range(n_ids):
            r = one.sample(ps.arr(B, vth[i]), n_samples=1, seed=g2)
            for d in range(n_dim):
                B.eq('sample[%d,%d] = underlying sampler at vartheta_i'
                     % (i, d), S[i][d], r[0][d])


def case_linear(B, cfg):
    """LinearCovariateModel.compute_population_parameters alone."""
    P, n_dim, n_cov, n_ids = cfg['P'], cfg['n_dim'], cfg['n_cov'], cfg['n_ids']
    sel = cfg['selection']
    cm = chi.LinearCovariateModel(n_cov=n_cov)
    try:
        cm.set_population_parameters(sel)
    except Exception as e:
        B.fact('no-exception:set_population_parameters', False, repr(e))
        return
    want = sorted(set((p, d) for p, d in sel))
    pidx, didx = cm.get_set_population_parameters()
    B.fact('stored selection = de-duplicated, parameter-major order',
           list(zip(pidx.tolist(), didx.tolist())) == want,
           repr(list(zip(pidx.tolist(), didx.tolist()))))
    B.fact('n_parameters', cm.n_parameters() == len(want) * n_cov)
    pop = [[B.var('th%d_%d' % (p, d)) for d in range(n_dim)]
           for p in range(P)]
    beta = [[B.var('b%d_%d' % (s, c)) for c in range(n_cov)]
            for s in range(len(want))]
    chis = [[B.var('chi%d_%d' % (i, c)) for c in range(n_cov)]
            for i in range(n_ids)]
    flat_beta = [b for row in beta for b in row]
    v = cm.compute_population_parameters(
        ps.arr(B, flat_beta), ps.arr(B, pop), ps.arr(B, chis))
    B.fact('shape', np.shape(v) == (n_ids, P, n_dim), repr(np.shape(v)))
    # (another evaluation in between: the array returned first is the
    # caller's and keeps its values)
    v2 = cm.compute_population_parameters(
        ps.arr(B, [B.var('ob%d' % k) for k in range(len(flat_beta))]),
        ps.arr(B, [[B.var('oth%d_%d' % (p, d)) for d in range(n_dim)]
                   for p in range(P)]),
        ps.arr(B, [[B.var('ochi%d_%d' % (i, c)) for c in range(n_cov)]
                   for i in range(n_ids)]))
    B.fact('a second evaluation returns its own array', v2 is not v)
    for i in range(n_ids):
        for p in range(P):
            for d in range(n_dim):
                ref = pop[p][d]
                if (p, d) in want:
                    s = want.index((p, d))
                    for c in range(n_cov):
                        ref = ref + beta[s][c] * chis[i][c]
                B.eq('vartheta[%d,%d,%d]' % (i, p, d), v[i][p][d], ref)
    D = [[[B.var('D%d_%d_%d' % (i, p, d)) for d in range(n_dim)]
          for p in range(P)] for i in range(n_ids)]
    dpop, dpar = cm.compute_sensitivities(
        ps.arr(B, flat_beta), ps.arr(B, pop), ps.arr(B, chis), ps.arr(B, D))
    for p in range(P):
        for d in range(n_dim):
            r = 0
            for i in range(n_ids):
                r = r + D[i][p][d]
            B.eq('dpop[%d,%d]' % (p, d), dpop[p * n_dim + d], r)
    for s, (p, d) in enumerate(want):
        for c in range(n_cov):
            r = 0
            for i in range(n_ids):
                r = r + D[i][p][d] * chis[i][c]
            B.eq('dbeta[%d,%d]' % (s, c), dpar[s * n_cov + c], r)


def selections(P, n_dim, max_len):
    grid = [[p, d] for p in range(P) for d in range(n_dim)]
    out = []
    for n in range(1, max_len + 1):
        for s in itertools.product(grid, repeat=n):
            out.append([list(x) for x in s])
    return out


# samples are terms over the RNG stub's variables: a counter-example of a
# sampling obligation is confirmed on those terms (nothing to run on floats)
SAMPLES = {'terms_labels': r'^sample\['}


def jobs(tier):
    out = []
    q = tier == 'quick'
    for kind in KINDS:
        P = ps.p_per_dim(kind)
        for n_dim in ([1, 2] if q else [1, 2, 3]):
            for n_cov in ([1, 2] if q else [1, 2, 3]):
                for n_ids in ([2] if q else [1, 2, 3]):
                    base = dict(kind=kind, n_dim=n_dim, n_cov=n_cov,
                                n_ids=n_ids)
                    out.append(('cov', 'case_cov', dict(base), SAMPLES))
                    if n_cov == 1:
                        out.append(('cov', 'case_cov',
                                    dict(base, zero='beta', sample=False), {}))
                        out.append(('cov', 'case_cov',
                                    dict(base, zero='chi', sample=False), {}))
        # selections
        for n_dim in ([1, 2] if q else [1, 2]):
            sels = selections(P, n_dim, 2 if q else 3)
            if q:
                sels = sels[::max(1, len(sels) // 8)]
            elif len(sels) > 60:
                sels = sels[::len(sels) // 60]
            for s in sels:
                out.append(('cov', 'case_cov', dict(
                    kind=kind, n_dim=n_dim, n_cov=1, n_ids=2, selection=s,
                    sample=False), {}))
    # repeated pairs that are separated by another pair of the same
    # dimension / parameter (de-duplication must not rely on adjacency)
    sep = [[[0, 0], [1, 0], [0, 0]], [[0, 1], [1, 1], [0, 1], [0, 0]],
           [[1, 0], [0, 0], [1, 1], [1, 0]], [[1, 1], [0, 1], [1, 1]]]
    # the dimensions (re)named after construction / after the selection
    for k_, (kind, nd, nc, s_) in enumerate((
            ('gaussian', 2, 2, None), ('pooled', 2, 2, None),
            ('lognormal_nc', 2, 2, [[0, 1], [1, 0]]),
            ('gaussian', 2, 3, [[1, 1], [0, 0], [0, 1]]),
            ('pooled', 2, 1, None), ('truncgauss', 1, 2, None))):
        for dn in ('named', 'default'):
            out.append(('cov', 'case_cov', dict(
                kind=kind, n_dim=nd, n_cov=nc, n_ids=2, selection=s_,
                dim_names=dn, sample=False), {}))
    for kind in ('gaussian', 'lognormal_nc'):
        for s_ in sep:
            nd = 1 + max(d for _, d in s_)
            out.append(('cov', 'case_cov', dict(
                kind=kind, n_dim=nd, n_cov=2, n_ids=2, selection=s_,
                sample=False), {}))
    for s_ in sep:
        out.append(('linear', 'case_linear', dict(
            P=2, n_dim=1 + max(d for _, d in s_), n_cov=2, n_ids=2,
            selection=s_), {}))
    for P, n_dim in ((2, 1), (2, 2), (1, 2)):
        sels = selections(P, n_dim, 2 if q else 3)
        if not q and len(sels) > 90:
            sels = sels[::len(sels) // 90]
        for s in sels:
            for n_cov in (1, 2):
                out.append(('linear', 'case_linear', dict(
                    P=P, n_dim=n_dim, n_cov=n_cov, n_ids=2, selection=s), {}))
    return out


BOUNDS = dict(
    quick='6 underlying models, n_dim 1..2, n_cov 1..2, 2 individuals, '
          'default selection; ~8 selections per (model, n_dim) out of all '
          'ordered lists of 1..2 index pairs; LinearCovariateModel alone on '
          'all ordered lists of 1..2 pairs; 4 selections with separated '
          'duplicates',
    thorough='n_dim 1..3, n_cov 1..3, 1..3 individuals; selections from all ordered lists of 1..3 '
             'pairs (<= 60 per model and dimension, evenly spaced)',
    outside='heterogeneous underlying model; more than 2 covariates / '
            'dimensions')
TRUSTED = ['z3', 'underlying population models as reference (decided by C05)',
           'RNG stub contract']
