"""C19 - evaluations are pure: no hidden state, no input mutation (sequential
clause)."""
import itertools

import numpy as np

import chi
import chi.library

from . import c12, hier, refs
from . import popspec as ps
from .stubs import SymMechModel, SymPrior

EXPLANATION = (
    'For every evaluable object (likelihoods and posteriors over a dosed '
    'PKPD model on the myokit stub, with and without fixed parameters; '
    'likelihood / hierarchical likelihood / filter posterior over the '
    'uninterpreted model; reduced error and population models; filters) all '
    'sequences of evaluations up to the bound -- value, pointwise, value with '
    'sensitivities, at two different symbolic points, seeded sampling -- are '
    'run on one object or interleaved over two siblings built from the same '
    'user models; every result term is decided equal to the result of the '
    'same single evaluation on a freshly built object, input arrays are '
    'compared cell by cell with a snapshot, and after mutating the user\'s '
    'models (renaming, new regimen, outputs, sensitivities) the derived '
    'object still returns the same terms.  The myokit stub makes hidden '
    'solver state visible: a rebuilt simulator that lost its protocol is a '
    'different term.')

FACADE = {'facade': {'myokit': True}, 'diffcheck': False}
_GSTATE = [0]
TIMES = [0.5, 2.0]


# ------------------------------------------------------------------ objects
def _pk_user_model(B):
    m = chi.library.ModelLibrary().one_compartment_pk_model()
    m.set_administration('central', direct=True)
    m.set_dosing_regimen(B.var('dose'), start=B.var('start'),
                         period=B.var('period'), num=2)
    return m


class Obj(object):
    """an evaluable object + its operations + the inputs to watch"""

    def __init__(self, B, kind, tag=''):
        self.B = B
        self.kind = kind
        self.user = {}
        self.inputs = []
        build = getattr(self, '_build_' + kind)
        build(tag)

    # points
    def pt(self, which):
        B = self.B
        return [B.var('%s%d' % (which, k)) for k in range(self.n)]

    def _watch(self, arr):
        self.inputs.append((arr, [x for x in np.ravel(arr)]))
        return arr

    def inputs_unchanged(self):
        for arr, snap in self.inputs:
            now = [x for x in np.ravel(arr)]
            if len(now) != len(snap) or any(
                    a is not b and not (isinstance(a, float) and a == b)
                    for a, b in zip(now, snap)):
                return False
        return True

    # -- builders
    def _build_ll_pk(self, tag, fixed=False):
        B = self.B
        um = _pk_user_model(B)
        em = chi.GaussianErrorModel()
        obs = self._watch(ps.arr(B, [B.var('y%s%d' % (tag, j))
                                     for j in range(2)]))
        times = self._watch(np.array(TIMES))
        self.user = dict(mech=um, em=em)
        ll = chi.LogLikelihood(um, em, obs, times)
        if fixed:
            ll.fix_parameters({'central.size': B.var('vfix')})
        self.obj = ll
        self.n = ll.n_parameters()
        self.ops = dict(v=lambda x: (ll(x),),
                        p=lambda x: tuple(ll.compute_pointwise_ll(x)),
                        s=lambda x: _s1(ll.evaluateS1(x)))

    def _build_ll_pk_fixed(self, tag):
        self._build_ll_pk(tag, fixed=True)

    def _build_ll_pk_swap(self, tag):
        """dosed likelihood with a fixed parameter; step 'f' swaps which
        parameter is fixed (the solver is rebuilt while sensitivities may
        still be on from the last gradient evaluation: the regimen must
        stay attached)"""
        self._build_ll_pk(tag, fixed=True)
        ll, B = self.obj, self.B
        self.reconfigure = lambda: ll.fix_parameters(
            {'central.size': None,
             'global.elimination_rate': B.var('kfix')})

    def _build_post_pk(self, tag):
        self._build_ll_pk(tag)
        ll = self.obj
        prior = SymPrior(self.B, self.n)
        post = chi.LogPosterior(ll, prior)
        self.obj = post
        self.ops = dict(v=lambda x: (post(x),),
                        s=lambda x: _s1(post.evaluateS1(x)))

    def _build_ll_sym(self, tag):
        B = self.B
        um = SymMechModel(B, n_params=2, n_outputs=2)
        ems = [chi.GaussianErrorModel(), chi.LogNormalErrorModel()]
        obs = [self._watch(ps.arr(B, [B.var('y%s%d_%d' % (tag, o, j))
                                      for j in range(2)]))
               for o in range(2)]
        self.user = dict(mech=um, em=ems[0])
        ll = chi.LogLikelihood(um, ems, obs, [[1.0, 2.5], [0.0, 1.0]])
        self.obj = ll
        self.n = ll.n_parameters()
        self.ops = dict(v=lambda x: (ll(x),),
                        p=lambda x: tuple(ll.compute_pointwise_ll(x)),
                        s=lambda x: _s1(ll.evaluateS1(x)))

    def _build_ll_sym_fix(self, tag):
        """likelihood with a fixed mechanistic parameter; the extra step 'f'
        swaps which mechanistic parameter is fixed (a legitimate
        reconfiguration between evaluations: what an earlier evaluation left
        behind in the mechanistic model must not show afterwards)"""
        B = self.B
        um = SymMechModel(B, n_params=3, n_outputs=1)
        em = chi.GaussianErrorModel()
        obs = self._watch(ps.arr(B, [B.var('y%s%d' % (tag, j))
                                     for j in range(2)]))
        self.user = dict(mech=um, em=em)
        ll = chi.LogLikelihood(um, em, obs, [1.0, 2.5])
        names = ll.get_parameter_names()
        ll.fix_parameters({names[0]: B.var('fix_a')})
        self.obj = ll
        self.n = ll.n_parameters()
        self.reconfigure = lambda: ll.fix_parameters(
            {names[0]: None, names[1]: B.var('fix_b')})
        self.ops = dict(v=lambda x: (ll(x),),
                        p=lambda x: tuple(ll.compute_pointwise_ll(x)),
                        s=lambda x: _s1(ll.evaluateS1(x)))

    def _build_pm(self, tag):
        """PredictiveModel: seeded sampling with the caller's (unsorted)
        time array and parameter vector as watched inputs"""
        B = self.B
        um = SymMechModel(B, n_params=2, n_outputs=2)
        ems = [chi.GaussianErrorModel(),
               chi.ConstantAndMultiplicativeGaussianErrorModel()]
        pm = chi.PredictiveModel(um, ems)
        self.user = dict(mech=um, em=ems[0])
        self.obj = pm
        self.n = pm.n_parameters()
        times = self._watch(np.array([2.5, 0.5, 1.0]))

        def draw(x, df):
            B.new_rng()
            res = pm.sample(x, times, n_samples=2, seed=5, return_df=df)
            if df:
                return tuple(res['Value']) + tuple(res['Time'])
            return tuple(np.ravel(np.asarray(res, dtype=object)))
        self.ops = dict(v=lambda x: draw(x, False), s=lambda x: draw(x, True))

    def _build_ppm(self, tag):
        """PosteriorPredictiveModel over a posterior with two individuals:
        seeded sampling for individual a ('v'), individual b ('s') and the
        default individual ('p'), interleaved on one object"""
        from .c15 import _posterior_dataset
        B = self.B
        um = SymMechModel(B, n_params=2, n_outputs=1)
        pm = chi.PredictiveModel(um, chi.GaussianErrorModel())
        names = pm.get_parameter_names()
        ds, cells = _posterior_dataset(B, names, ['ID a', 'ID b'], 2, 2)
        for key, v in cells.items():
            if key[0] == names[-1]:
                B.assume(v > 0)
        ppm = chi.PosteriorPredictiveModel(pm, ds)
        self.user = dict(mech=um, em=None)
        self.obj = ppm
        self.n = 1
        times = self._watch(np.array([2.5, 1.0]))

        def draw(ind):
            B.new_rng()
            res = ppm.sample(times, n_samples=1, seed=5, individual=ind)
            return tuple(res['Value']) + tuple(res['Time'])
        self.ops = dict(v=lambda x: draw('ID a'), s=lambda x: draw('ID b'),
                        p=lambda x: draw(None))

    def _build_prior_pm(self, tag):
        """PriorPredictiveModel: seeded sampling with the seeds 0 ('v'), 5
        ('s') and a NumPy integer ('p'); the process-wide generator is in a
        different state at every call (in the float replay: wherever the
        earlier draws left it)"""
        import math
        import pints
        from chisym.sym import Sym
        B = self.B
        um = SymMechModel(B, n_params=2, n_outputs=1)
        pm = chi.PredictiveModel(um, chi.GaussianErrorModel())

        class Prior(pints.LogPrior):
            def n_parameters(self):
                return 3

            def __call__(self, x):
                return 0.0

            def sample(self, n=1):
                import chi._log_pdfs as lp
                z = lp.np.random.normal(size=(n, 3))
                out = np.empty((n, 3), dtype=object if B.symbolic else float)
                for i in range(n):
                    for j in range(3):
                        v = z[i][j]
                        if j == 2:
                            v = Sym.lift(v).exp() if B.symbolic else \
                                math.exp(v)
                        out[i, j] = v
                return out
        ppm = chi.PriorPredictiveModel(pm, Prior())
        self.user = dict(mech=um, em=None)
        self.obj = ppm
        self.n = 1
        times = self._watch(np.array([2.5, 1.0]))

        def draw(seed):
            rng = B.new_rng()
            if rng is not None:
                _GSTATE[0] += 1
                rng.set_global('state-%d' % _GSTATE[0])
            res = ppm.sample(times, n_samples=2, seed=seed)
            return tuple(res['Value']) + tuple(res['Time'])
        self.ops = dict(v=lambda x: draw(0), s=lambda x: draw(5),
                        p=lambda x: draw(np.int64(7)))

    def _build_ll_red_mm(self, tag, shared=None):
        """likelihood whose user-supplied mechanistic model is a
        ReducedMechanisticModel that already has a fixed parameter"""
        B = self.B
        if shared is None:
            um = chi.ReducedMechanisticModel(
                SymMechModel(B, n_params=3, n_outputs=1))
            um.fix_parameters({um.parameters()[0]: B.var('mm_user')})
        else:
            um = shared
        em = chi.GaussianErrorModel()
        obs = self._watch(ps.arr(B, [B.var('y%s%d' % (tag, j))
                                     for j in range(2)]))
        self.user = dict(mech=um, em=None)
        ll = chi.LogLikelihood(um, em, obs, [1.0, 2.5])
        self.obj = ll
        self.n = ll.n_parameters()
        self.ops = dict(v=lambda x: (ll(x),),
                        p=lambda x: tuple(ll.compute_pointwise_ll(x)),
                        s=lambda x: _s1(ll.evaluateS1(x)))

    def _build_ll_red_em(self, tag, shared=None):
        """likelihood whose user-supplied error model is a ReducedErrorModel
        that already has a fixed parameter"""
        B = self.B
        if shared is None:
            um = SymMechModel(B, n_params=2, n_outputs=1)
            em = chi.ReducedErrorModel(
                chi.ConstantAndMultiplicativeGaussianErrorModel())
            em.fix_parameters({'Sigma base': B.var('sb_user')})
        else:
            um, em = shared
        obs = self._watch(ps.arr(B, [B.var('y%s%d' % (tag, j))
                                     for j in range(2)]))
        self.user = dict(mech=um, em=em)
        ll = chi.LogLikelihood(um, em, obs, [1.0, 2.5])
        self.obj = ll
        self.n = ll.n_parameters()
        self.ops = dict(v=lambda x: (ll(x),),
                        p=lambda x: tuple(ll.compute_pointwise_ll(x)),
                        s=lambda x: _s1(ll.evaluateS1(x)))

    def _build_hier(self, tag):
        B = self.B
        H = hier.build(B, dict(
            units=[hier.unit('gaussian_nc'), hier.unit('pooled')], n_ids=2))
        hl = H['hl']
        self.obj = hl
        self.n = hl.n_parameters()
        self.user = dict(mech=H['mm'])
        self.ops = dict(v=lambda x: (hl(x),),
                        s=lambda x: _s1(hl.evaluateS1(x)))

    def _build_filterpost(self, tag):
        B = self.B
        from . import c13
        H = c13.build(B, dict(units=[hier.unit('gaussian'),
                                     hier.unit('pooled')],
                              n_samples=2, times=[2.5, 1.0]))
        post = H['post']
        self.obj = post
        self.n = post.n_parameters()
        self.user = dict(mech=H['mm'])
        self.ops = dict(v=lambda x: (post(x),),
                        s=lambda x: _s1(post.evaluateS1(x)))

    def _build_filterpost_fixed(self, tag):
        """filter posterior with a fixed (symbolic) noise scale"""
        B = self.B
        from . import c13
        H = c13.build(B, dict(units=[hier.unit('gaussian'),
                                     hier.unit('pooled')],
                              n_samples=2, times=[2.5, 1.0],
                              sigma_fixed=True))
        post = H['post']
        self.obj = post
        self.n = post.n_parameters()
        self.user = dict(mech=H['mm'])
        self.ops = dict(v=lambda x: (post(x),),
                        s=lambda x: _s1(post.evaluateS1(x)))

    def _build_red_em(self, tag):
        B = self.B
        em = chi.ReducedErrorModel(
            chi.ConstantAndMultiplicativeGaussianErrorModel())
        em.fix_parameters({'Sigma base': B.var('sbfix')})
        yb = self._watch(ps.arr(B, B.vars('ybar' + tag, 2)))
        y = self._watch(ps.arr(B, B.vars('yo' + tag, 2)))
        S = self._watch(ps.arr(B, [[B.var('S%s%d' % (tag, j))]
                                   for j in range(2)]))
        self.obj = em
        self.n = 1
        self.ops = dict(
            v=lambda x: (em.compute_log_likelihood(x, yb, y),),
            p=lambda x: tuple(em.compute_pointwise_ll(x, yb, y)),
            s=lambda x: _s1(em.compute_sensitivities(x, yb, S, y)))

    def _build_red_pop(self, tag):
        B = self.B
        pm = chi.ReducedPopulationModel(chi.ComposedPopulationModel(
            [chi.GaussianModel(), chi.LogNormalModel(centered=False)]))
        pm.set_n_ids(2)
        names = pm.get_parameter_names()
        pm.fix_parameters({names[1]: B.var('popfix')})
        obs = self._watch(ps.arr(B, [[B.var('o%s%d_%d' % (tag, i, d))
                                      for d in range(2)] for i in range(2)]))
        self.obj = pm
        self.n = 3
        self.ops = dict(
            v=lambda x: (pm.compute_log_likelihood(x, obs),),
            s=lambda x: _s1(pm.compute_sensitivities(x, obs, reduce=True)),
            p=lambda x: tuple(np.ravel(pm.compute_individual_parameters(
                x, obs))))

    def _build_pop_flat(self, tag):
        """composition without pooled / heterogeneous dimensions; the
        individual-level values are handed over as one flat array (the layout
        of a hierarchical parameter vector)"""
        B = self.B
        pm = chi.ComposedPopulationModel(
            [chi.GaussianModel(centered=False),
             chi.LogNormalModel(centered=False)])
        pm.set_n_ids(2)
        eta = self._watch(ps.arr(B, [B.var('e%s%d' % (tag, k))
                                     for k in range(4)]))
        self.obj = pm
        self.n = 4
        self.ops = dict(
            v=lambda x: (pm.compute_log_likelihood(x, eta.reshape(2, 2)),),
            p=lambda x: tuple(np.ravel(pm.compute_individual_parameters(
                x, eta))),
            s=lambda x: tuple(np.ravel(pm.compute_individual_parameters(
                x, eta, return_eta=True))))

    def _build_filter(self, tag):
        B = self.B
        M = self._watch(ps.arr(B, [[[B.var('m%s%d' % (tag, t))
                                     for t in range(2)]]]))
        f = chi.GaussianFilter(M)
        self.obj = f
        self.n = 4

        def shape(x):
            return ps.arr(B, [[[x[0], x[1]]], [[x[2], x[3]]]])
        self.ops = dict(
            v=lambda x: (f.compute_log_likelihood(shape(x)),),
            s=lambda x: _s1(f.compute_sensitivities(shape(x))))


_HELD = []


def _s1(res):
    score, sens = res
    # the caller keeps what was returned: remember the array itself and what
    # it held at the moment it was handed out
    if isinstance(sens, np.ndarray):
        _HELD.append((sens, [x for x in np.ravel(sens)]))
    return (score,) + tuple(np.ravel(sens))


def _held_results_intact():
    for arr, snap in _HELD:
        now = [x for x in np.ravel(arr)]
        if len(now) != len(snap):
            return False
        for a, b in zip(now, snap):
            if a is b:
                continue
            if isinstance(a, float) and isinstance(b, float) and (
                    a == b or (a != a and b != b)):
                continue
            if hasattr(a, 't') and hasattr(b, 't') and a.t is b.t:
                continue
            return False
    return True


def assume_support(B, x):
    # generic positivity of every coordinate keeps all objects in support
    for v in x:
        B.assume(v > 0)


def run_op(B, o, op, pts, buf=None):
    kind, which = op[0], op[1]
    x = pts[which]
    if buf is not None and len(buf) == len(x):
        # the caller re-uses one array for all its evaluations and writes
        # the next point into it (coordinate updates, finite differences)
        for k, v in enumerate(x):
            buf[k] = v
        xa = buf
    else:
        xa = ps.arr(B, x)
    snap = [e for e in xa]
    res = o.ops[kind](xa)
    ok = all(a is b for a, b in zip(xa, snap)) and o.inputs_unchanged()
    return res, ok


def case_seq(B, cfg):
    kind = cfg['kind']
    seq = cfg['seq']                 # list of (obj index, op, point)
    n_obj = 1 + max(s[0] for s in seq)
    objs = [Obj(B, kind, tag='abcd'[i]) for i in range(n_obj)]
    pts = dict(x=objs[0].pt('x'), y=objs[0].pt('z'))
    assume_support(B, pts['x'] + pts['y'])
    seen = {}
    reconfigured = set()
    del _HELD[:]
    buf = ps.arr(B, pts['x']) if cfg.get('shared_buffer') else None
    for step, (oi, op, which) in enumerate(seq):
        o = objs[oi]
        if op == 'f':
            o.reconfigure()
            reconfigured.add(oi)
            seen = {k: v for k, v in seen.items() if k[0] != oi}
            continue
        if op not in o.ops:
            continue
        try:
            res, ok = run_op(B, o, (op, which), pts, buf)
        except Exception as e:
            B.fact('no-exception: step %d (%s at %s)' % (step, op, which),
                   False, repr(e))
            return
        B.fact('step %d: inputs not mutated' % step, ok)
        fresh = Obj(B, kind, tag='abcd'[oi])
        if oi in reconfigured:
            fresh.reconfigure()
        ref, _ = run_op(B, fresh, (op, which), pts)
        B.fact('step %d: result length' % step, len(res) == len(ref),
               '%d vs %d' % (len(res), len(ref)))
        for k, (a, b) in enumerate(zip(res, ref)):
            B.eq('step %d (%s at %s on object %d): result[%d] = fresh '
                 'evaluation' % (step, op, which, oi, k), a, b)
        # cross-operation consistency on the same object (an error shared by
        # the fresh reference, e.g. a solver rebuilt without its protocol by
        # one kind of evaluation, shows up here)
        seen[(oi, op, which)] = res
        v = seen.get((oi, 'v', which))
        s_ = seen.get((oi, 's', which))
        p_ = seen.get((oi, 'p', which))
        if v is not None and s_ is not None and op in ('v', 's') and \
                kind not in ('pm', 'ppm', 'prior_pm', 'pop_flat'):
            B.eq('step %d: S1 score = value at the same point (object %d)'
                 % (step, oi), s_[0], v[0])
        if v is not None and p_ is not None and op in ('v', 'p') and \
                kind not in ('red_pop', 'ppm', 'prior_pm', 'pop_flat'):
            tot = p_[0]
            for t_ in p_[1:]:
                tot = tot + t_
            B.eq('step %d: sum(pointwise) = value at the same point '
                 '(object %d)' % (step, oi), tot, v[0])
        B.fact('step %d: gradients returned earlier still hold what they '
               'held when they were returned' % step, _held_results_intact())


def case_user_mutation(B, cfg):
    kind, mut = cfg['kind'], cfg['mutation']
    o = Obj(B, kind, tag='a')
    x = o.pt('x')
    assume_support(B, x)
    um = o.user.get('mech')
    em = o.user.get('em')
    try:
        if mut == 'rename':
            if hasattr(um, 'set_parameter_names'):
                um.set_parameter_names({um.parameters()[-1]: 'renamed'})
            if em is not None:
                em.set_parameter_names(['renamed sigma'])
        elif mut == 'regimen':
            um.set_dosing_regimen(B.var('other_dose'), start=B.var('other_s'))
        elif mut == 'outputs':
            um.set_outputs([um.outputs()[0]] if kind != 'll_pk' else
                           ['central.drug_amount'])
        elif mut == 'sens':
            um.enable_sensitivities(True)
        elif mut == 'administration':
            um.set_administration('central', direct=False)
        elif mut == 'refix_mm':
            um.fix_parameters({'p0': B.var('mm_other')})
        elif mut == 'fix_more_mm':
            um.fix_parameters({'p1': B.var('mm_more')})
        elif mut == 'release_mm':
            um.fix_parameters({'p0': None})
        elif mut == 'user_simulate':
            # the user keeps using their own model
            um.simulate(ps.arr(B, [B.var('u1'), B.var('u2')]), [1.0])
        elif mut == 'refix_em':
            em.fix_parameters({'Sigma base': B.var('sb_other')})
        elif mut == 'release_em':
            em.fix_parameters({'Sigma base': None})
    except Exception as e:
        B.note('mutation', 'not applicable: %r' % (e,))
        return
    fresh = Obj(B, kind, tag='a')
    before = None
    if hasattr(um, 'calls') and hasattr(um, 'has_sensitivities'):
        before = (len(um.calls), bool(um.has_sensitivities()),
                  tuple(um.outputs()), tuple(um.parameters()))
    for op in ('v', 's', 'v'):
        if op not in o.ops:
            continue
        res, ok = run_op(B, o, (op, 'x'), dict(x=x))
        ref, _ = run_op(B, fresh, (op, 'x'), dict(x=x))
        B.fact('names unaffected', getattr(
            o.obj, 'get_parameter_names', lambda: None)() == getattr(
                fresh.obj, 'get_parameter_names', lambda: None)())
        for k, (a, b) in enumerate(zip(res, ref)):
            B.eq('after user-model %s: %s result[%d] unchanged'
                 % (mut, op, k), a, b)
    if before is not None:
        # ... and the evaluations did not touch the user's own model object
        # (no simulation on it, its sensitivity switch, outputs and names as
        # the user left them)
        now = (len(um.calls), bool(um.has_sensitivities()),
               tuple(um.outputs()), tuple(um.parameters()))
        B.fact('evaluations leave the user\'s model object untouched',
               now == before, '%r vs %r' % (now, before))


def case_shared_models(B, cfg):
    """two likelihoods built from the *same* user models; re-configuring
    one of them (or the user's models) must not change the other"""
    if not B.symbolic:
        return
    a = Obj(B, 'll_red_em', tag='a')
    b = Obj.__new__(Obj)
    b.B, b.kind, b.user, b.inputs = B, 'll_red_em', {}, []
    b._build_ll_red_em('b', shared=(a.user['mech'], a.user['em']))
    x = a.pt('x')
    assume_support(B, x)
    B.assume(B.var('sb_user') > 0)
    before = {op: run_op(B, a, (op, 'x'), dict(x=x))[0] for op in 'vps'}
    step = cfg['step']
    if step == 'sibling_fix':
        b.obj.fix_parameters({'Sigma rel.': B.var('rel_fix')})
    elif step == 'sibling_refix_shared':
        b.obj.fix_parameters({'Sigma base': B.var('sb_sibling')})
    elif step == 'sibling_eval':
        run_op(B, b, ('s', 'x'), dict(x=x))
        run_op(B, b, ('v', 'x'), dict(x=x))
    elif step == 'user_refix':
        a.user['em'].fix_parameters({'Sigma base': B.var('sb_other')})
    elif step == 'user_rename':
        a.user['em'].set_parameter_names(['renamed'])
    B.fact('names of the first likelihood unchanged',
           a.obj.get_parameter_names() == Obj(
               B, 'll_red_em', tag='a').obj.get_parameter_names())
    for op in 'vps':
        after = run_op(B, a, (op, 'x'), dict(x=x))[0]
        for k, (u, v) in enumerate(zip(before[op], after)):
            B.eq('after %s: %s result[%d] of the other likelihood unchanged'
                 % (step, op, k), v, u)


KINDS = ['ll_pk', 'll_pk_fixed', 'post_pk', 'll_sym', 'hier', 'filterpost',
         'red_em', 'red_pop', 'filter', 'll_red_em', 'pm', 'ppm', 'prior_pm',
         'pop_flat', 'filterpost_fixed']


def jobs(tier):
    out = []
    q = tier == 'quick'
    single_ops = [(0, o, w) for o in 'vps' for w in 'xy']
    two_ops = [(i, o, w) for i in (0, 1) for o in 'vps' for w in 'xy']
    for kind in KINDS:
        facade = FACADE if 'pk' in kind else {'diffcheck': False}
        L = 2 if q else 3
        for n in range(2, L + 1):
            for seq in itertools.product(single_ops, repeat=n):
                if n == 3 and kind not in ('ll_pk', 'll_pk_fixed', 'red_em',
                                           'post_pk'):
                    continue
                out.append(('seq', 'case_seq', dict(
                    kind=kind, seq=[list(s) for s in seq]), facade))
        if kind in ('ll_pk', 'll_sym', 'red_em', 'll_pk_fixed', 'll_red_em',
                    'pm', 'ppm', 'prior_pm'):
            sib = list(itertools.product(two_ops, repeat=2))
            sib = [s for s in sib if s[0][0] != s[1][0]]
            if not q:
                sib3 = [s for s in itertools.product(two_ops, repeat=3)
                        if len({t[0] for t in s}) == 2]
                sib += sib3[::7]
            for seq in sib:
                out.append(('seq', 'case_seq', dict(
                    kind=kind, seq=[list(s) for s in seq]), facade))
    # one parameter array re-used (written in place) for all evaluations
    for kind in ('ll_sym', 'll_pk', 'hier', 'post_pk', 'filterpost',
                 'll_red_em', 'red_pop', 'red_em', 'filterpost_fixed'):
        facade = FACADE if 'pk' in kind else {'diffcheck': False}
        for seq in itertools.product(single_ops, repeat=2):
            if seq[0][2] == seq[1][2]:
                continue
            out.append(('seq', 'case_seq', dict(
                kind=kind, seq=[list(s_) for s_ in seq], shared_buffer=True),
                facade))
        for seq in ([(0, 'v', 'x'), (0, 'v', 'y'), (0, 'v', 'x')],
                    [(0, 'v', 'x'), (0, 's', 'y'), (0, 'v', 'y')],
                    [(0, 's', 'x'), (0, 'v', 'y'), (0, 'p', 'x')]):
            out.append(('seq', 'case_seq', dict(
                kind=kind, seq=[list(s_) for s_ in seq], shared_buffer=True),
                facade))
    # evaluations, a reconfiguration, evaluations
    pres = [[], ['s'], ['v'], ['s', 'v'], ['v', 's'], ['p', 's']]
    posts = [['s'], ['v'], ['s', 'v'], ['v', 's'], ['s', 's'], ['p', 's']]
    for a in pres:
        for b in posts:
            seq = [[0, o, 'x'] for o in a] + [[0, 'f', 'x']] + \
                [[0, o, 'xy'[k % 2]] for k, o in enumerate(b)]
            out.append(('seq', 'case_seq', dict(kind='ll_sym_fix', seq=seq),
                        {'diffcheck': False}))
            if len(a) + len(b) <= 3:
                out.append(('seq', 'case_seq', dict(kind='ll_pk_swap',
                                                    seq=seq), FACADE))
    for kind in ('ll_pk', 'post_pk', 'll_pk_fixed'):
        for mut in ('rename', 'regimen', 'outputs', 'sens', 'administration'):
            out.append(('user_mutation', 'case_user_mutation',
                        dict(kind=kind, mutation=mut), FACADE))
    for kind in ('filterpost', 'll_sym', 'hier', 'pm', 'll_red_mm'):
        for mut in ('none', 'sens', 'rename', 'user_simulate'):
            if mut == 'user_simulate' and kind != 'filterpost':
                continue
            out.append(('user_mutation', 'case_user_mutation',
                        dict(kind=kind, mutation=mut),
                        {'diffcheck': False, 'facts_final': True,
                         'confirm_by_terms': True}))
    for mut in ('refix_em', 'release_em', 'rename', 'sens'):
        out.append(('user_mutation', 'case_user_mutation',
                    dict(kind='ll_red_em', mutation=mut),
                    {'diffcheck': False, 'facts_final': True,
                     'confirm_by_terms': True}))
    for mut in ('refix_mm', 'fix_more_mm', 'release_mm', 'user_simulate',
                'sens'):
        out.append(('user_mutation', 'case_user_mutation',
                    dict(kind='ll_red_mm', mutation=mut),
                    {'diffcheck': False, 'facts_final': True,
                     'confirm_by_terms': True}))
    for step in ('sibling_fix', 'sibling_refix_shared', 'sibling_eval',
                 'user_refix', 'user_rename'):
        out.append(('shared_models', 'case_shared_models', dict(step=step),
                    {'diffcheck': False, 'facts_final': True,
                     'confirm_by_terms': True}))
    for kind in ('ll_sym', 'hier'):
        for mut in ('rename', 'sens'):
            out.append(('user_mutation', 'case_user_mutation',
                        dict(kind=kind, mutation=mut), {'diffcheck': False}))
    return out


BOUNDS = dict(
    quick='11 object kinds (incl. seeded sampling from a PredictiveModel with an unsorted time array as watched input); all sequences of 2 evaluations from {value, '
          'pointwise, S1} x {two points} on one object, all interleavings of '
          '2 evaluations over two siblings for 4 kinds; 19 user-model '
          'mutations; 36 sequences evaluations - swap of the fixed '
          'mechanistic parameter - evaluations',
    thorough='sequences of 3 evaluations for the dosed / fixed-parameter '
             'objects; a seventh of the 3-step sibling interleavings',
    outside='forked worker processes (pints.ParallelEvaluator) -- OS level, '
            'not reachable by this technique; data frames; longer sequences')
TRUSTED = ['myokit stub (hidden solver state is part of the term)',
           'term identity / z3']
