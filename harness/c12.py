"""C12 - population filters use the documented estimators; invariances."""
import itertools

import numpy as np

import chi

from . import popspec as ps

EXPLANATION = (
    'Every population filter class is executed on symbolic measurements and '
    'symbolic simulated measurements.  z3 decides that the score equals the '
    'sum of the documented log-densities with the documented empirical '
    'estimators (mean, ddof=1 variance, rule-of-thumb bandwidth, equal-weight '
    'mixture over consecutive blocks), that the sensitivities equal the '
    'symbolic derivative of the score with respect to every simulated '
    'measurement in input order, and that the score is invariant under '
    'permuting measured individuals, under sort_times with consistently '
    'reordered simulations, and under splitting the time points over a '
    'ComposedPopulationFilter.  The log-sum-exp branches (which simulated '
    'individual attains the maximum) are explored path by path.')

FILTERS = ['gaussian', 'lognormal', 'gaussian_kde', 'lognormal_kde',
           'mixture']


def make(kind, M):
    if kind == 'gaussian':
        return chi.GaussianFilter(M)
    if kind == 'lognormal':
        return chi.LogNormalFilter(M)
    if kind == 'gaussian_kde':
        return chi.GaussianKDEFilter(M)
    if kind == 'lognormal_kde':
        return chi.LogNormalKDEFilter(M)
    if kind == 'mixture':
        return chi.GaussianMixtureFilter(M, n_kernels=2)
    raise ValueError(kind)


def _mean_var(B, xs):
    n = len(xs)
    m = xs[0]
    for x in xs[1:]:
        m = m + x
    m = m / n
    v = (xs[0] - m) ** 2
    for x in xs[1:]:
        v = v + (x - m) ** 2
    return m, v / (n - 1)


def _normal(B, y, m, v):
    return -B.log(2 * B.pi) / 2 - B.log(v) / 2 - (y - m) ** 2 / (2 * v)


def reference(B, kind, M, X):
    """documented log-likelihood; M[i][o][t], X[s][o][t]"""
    n_ids, n_obs, n_t = len(M), len(M[0]), len(M[0][0])
    n_sim = len(X)
    total = 0
    for o in range(n_obs):
        for t in range(n_t):
            xs = [X[s][o][t] for s in range(n_sim)]
            if kind in ('lognormal', 'lognormal_kde'):
                xs = [B.log(x) for x in xs]
            if kind == 'mixture':
                half = n_sim // 2
                blocks = [_mean_var(B, xs[:half]), _mean_var(B, xs[half:])]
            else:
                m, v = _mean_var(B, xs)
            for i in range(n_ids):
                y = M[i][o][t]
                if isinstance(y, float) and y != y:
                    continue        # missing value: contributes nothing
                if kind == 'gaussian':
                    total = total + _normal(B, y, m, v)
                elif kind == 'lognormal':
                    total = total + _normal(B, B.log(y), m, v) - B.log(y)
                elif kind in ('gaussian_kde', 'lognormal_kde'):
                    bw2 = (4 / 3 / n_sim) ** 0.4 * v
                    yy = B.log(y) if kind == 'lognormal_kde' else y
                    es = [-(yy - x) ** 2 / (2 * bw2) for x in xs]
                    shift = 0
                    if not B.symbolic:
                        # float replay: the kernels may underflow; the same
                        # quantity, shifted (log sum exp(e) = s + log sum
                        # exp(e - s))
                        shift = max(es)
                    acc = 0
                    for e_ in es:
                        acc = acc + B.exp(e_ - shift)
                    total = total + shift + B.log(acc) - B.log(n_sim) \
                        - B.log(2 * B.pi) / 2 - B.log(bw2) / 2
                    if kind == 'lognormal_kde':
                        total = total - B.log(y)
                elif kind == 'mixture':
                    es = [-(y - mk) ** 2 / (2 * vk) for (mk, vk) in blocks]
                    shift = 0 if B.symbolic else max(es)
                    acc = 0
                    for e_, (mk, vk) in zip(es, blocks):
                        acc = acc + B.exp(e_ - shift) / B.sqrt(vk)
                    total = total + shift + B.log(acc) - B.log(2) \
                        - B.log(2 * B.pi) / 2
    return total


def _vars(B, pre, a, b, c):
    return [[[B.var('%s%d_%d_%d' % (pre, i, j, k)) for k in range(c)]
             for j in range(b)] for i in range(a)]


def _assume(B, kind, M, X):
    n_sim, n_obs, n_t = len(X), len(X[0]), len(X[0][0])
    pos = kind in ('lognormal', 'lognormal_kde')
    if pos:
        for A in (M, X):
            for a in A:
                for b in a:
                    for x in b:
                        B.assume(x > 0)
    for o in range(n_obs):
        for t in range(n_t):
            xs = [X[s][o][t] for s in range(n_sim)]
            if pos:
                xs = [B.log(x) for x in xs]
            groups = [xs] if kind != 'mixture' else [xs[:n_sim // 2],
                                                     xs[n_sim // 2:]]
            for g in groups:
                # non-degenerate simulated sample: positive variance
                B.assume(_mean_var(B, g)[1] > 0)


def case_filter(B, cfg):
    kind = cfg['kind']
    n_ids, n_obs, n_t, n_sim = (cfg['n_ids'], cfg['n_obs'], cfg['n_times'],
                                cfg['n_sim'])
    M = _vars(B, 'm', n_ids, n_obs, n_t)
    X = _vars(B, 'x', n_sim, n_obs, n_t)
    _assume(B, kind, M, X)
    f = make(kind, ps.arr(B, M))
    Xa = ps.arr(B, X)
    v = f.compute_log_likelihood(Xa)
    B.eq('score = documented log-likelihood', v, reference(B, kind, M, X))
    flat = [X[s][o][t] for s in range(n_sim) for o in range(n_obs)
            for t in range(n_t)]

    def val(xs):
        arr = [[[xs[(s * n_obs + o) * n_t + t] for t in range(n_t)]
                for o in range(n_obs)] for s in range(n_sim)]
        return make(kind, ps.arr(B, M)).compute_log_likelihood(ps.arr(B, arr))
    _, g = B.grad(val, flat)
    score, sens = f.compute_sensitivities(Xa)
    B.eq('S1 score = score', score, v)
    B.fact('sensitivity shape', np.shape(sens) == (n_sim, n_obs, n_t),
           repr(np.shape(sens)))
    if np.shape(sens) == (n_sim, n_obs, n_t):
        for s in range(n_sim):
            for o in range(n_obs):
                for t in range(n_t):
                    B.eq('sens[%d,%d,%d] = d score / d simulated' % (s, o, t),
                         sens[s][o][t], g[(s * n_obs + o) * n_t + t])
    if cfg.get('then_n_sim'):
        # the same object, next with another number of simulated individuals
        n2 = cfg['then_n_sim']
        X2 = _vars(B, 'z', n2, n_obs, n_t)
        _assume(B, kind, M, X2)
        v2 = f.compute_log_likelihood(ps.arr(B, X2))
        ref2 = reference(B, kind, M, X2)
        B.eq('same object, %d simulated individuals after %d: score = '
             'documented log-likelihood' % (n2, n_sim), v2, ref2)
        sc2, se2 = f.compute_sensitivities(ps.arr(B, X2))
        B.eq('same object, %d simulated individuals after %d: S1 score'
             % (n2, n_sim), sc2, ref2)
        B.fact('same object, other number of simulated individuals: '
               'sensitivity shape', np.shape(se2) == (n2, n_obs, n_t),
               repr(np.shape(se2)))
    # permutation of measured individuals
    if n_ids > 1:
        Mp = M[1:] + M[:1]
        B.eq('invariant under permuting measured individuals',
             make(kind, ps.arr(B, Mp)).compute_log_likelihood(Xa), v)
    # sort_times with consistently reordered simulations
    if n_t > 1:
        for order in itertools.permutations(range(n_t)):
            if list(order) == list(range(n_t)):
                continue
            f2 = make(kind, ps.arr(B, M))
            f2.sort_times(list(order))
            Xo = [[[X[s][o][order[k]] for k in range(n_t)]
                   for o in range(n_obs)] for s in range(n_sim)]
            B.eq('sort_times%r: score unchanged' % (order,),
                 f2.compute_log_likelihood(ps.arr(B, Xo)), v)
            sc, se = f2.compute_sensitivities(ps.arr(B, Xo))
            for s in range(n_sim):
                for o in range(n_obs):
                    for k in range(n_t):
                        B.eq('sort_times%r: sens[%d,%d,%d] in input order'
                             % (order, s, o, k), se[s][o][k],
                             g[(s * n_obs + o) * n_t + order[k]])


NAN = float('nan')


def _pattern(M, pattern):
    """copy of M (n_ids x n_obs x n_t) with missing values:
    'pad'     - an extra individual without any measurement
    'ragged'  - additionally, individual 0 misses the last time point and
                individual 1 the first (every cell keeps >= 1 value)
    'sparse'  - only individual i is measured at time i mod n_t ... plus a
                fully measured last individual
    'uneven'  - the last time point is measured for the last individual
                only
    'obs_first' / 'obs_last' / 'obs_crossed' - missing values that differ
                between the observables (first only / last only / both, plus
                an individual measured in the first observable only)"""
    n_ids, n_obs, n_t = len(M), len(M[0]), len(M[0][0])
    out = [[[M[i][o][t] for t in range(n_t)] for o in range(n_obs)]
           for i in range(n_ids)]
    if pattern in ('pad', 'ragged'):
        out.append([[NAN] * n_t for _ in range(n_obs)])
    if pattern == 'ragged' and n_ids >= 2:
        for o in range(n_obs):
            out[0][o][n_t - 1] = NAN
            out[1][o][0] = NAN
    if pattern == 'uneven':
        # time point 0 is measured for everybody, the last one only for the
        # last individual: different counts per time point
        for i in range(n_ids - 1):
            for o in range(n_obs):
                out[i][o][n_t - 1] = NAN
    if pattern == 'obs_first':
        # the observables do not share their missing values: individual 0
        # misses the last time point in the first observable only
        out[0][0][n_t - 1] = NAN
    if pattern == 'obs_last':
        out[0][n_obs - 1][0] = NAN
    if pattern == 'obs_crossed':
        out[0][0][n_t - 1] = NAN
        out[n_ids - 1][n_obs - 1][0] = NAN
        out.append([[NAN] * n_t if o else [M[0][0][t] for t in range(n_t)]
                    for o in range(n_obs)])
    if pattern == 'sparse':
        for i in range(n_ids - 1):
            for o in range(n_obs):
                for t in range(n_t):
                    if t != i % n_t:
                        out[i][o][t] = NAN
    return out


def case_missing(B, cfg):
    """missing values: the score is the sum over the non-missing
    measurements; padding does not change it; sensitivities are its
    derivative"""
    kind = cfg['kind']
    n_ids, n_obs, n_t, n_sim = (cfg['n_ids'], cfg['n_obs'], cfg['n_times'],
                                cfg['n_sim'])
    M = _vars(B, 'm', n_ids, n_obs, n_t)
    X = _vars(B, 'x', n_sim, n_obs, n_t)
    _assume(B, kind, M, X)
    Mp = _pattern(M, cfg['pattern'])
    Xa = ps.arr(B, X)
    f = make(kind, ps.arr(B, Mp))
    v = f.compute_log_likelihood(Xa)
    B.eq('score with missing values = sum over the non-missing '
         'measurements', v, reference(B, kind, Mp, X))
    if cfg['pattern'] == 'pad':
        B.eq('padding with a missing individual leaves the score unchanged',
             v, make(kind, ps.arr(B, M)).compute_log_likelihood(Xa))
    flat = [X[s][o][t] for s in range(n_sim) for o in range(n_obs)
            for t in range(n_t)]

    def val(xs):
        arr = [[[xs[(s * n_obs + o) * n_t + t] for t in range(n_t)]
                for o in range(n_obs)] for s in range(n_sim)]
        return make(kind, ps.arr(B, Mp)).compute_log_likelihood(
            ps.arr(B, arr))
    _, g = B.grad(val, flat)
    score, sens = f.compute_sensitivities(Xa)
    B.eq('S1 score = score (missing values)', score, v)
    for s in range(n_sim):
        for o in range(n_obs):
            for t in range(n_t):
                B.eq('sens[%d,%d,%d] = d score / d simulated (missing '
                     'values)' % (s, o, t), sens[s][o][t],
                     g[(s * n_obs + o) * n_t + t])
    # re-ordering the time points of a filter that holds missing values
    # (the number of measured individuals differs between time points)
    if n_t >= 2:
        for order in itertools.permutations(range(n_t)):
            if list(order) == list(range(n_t)):
                continue
            f2 = make(kind, ps.arr(B, Mp))
            f2.sort_times(list(order))
            Xo = [[[X[s][o][order[k]] for k in range(n_t)]
                   for o in range(n_obs)] for s in range(n_sim)]
            B.eq('missing values, sort_times%r: score unchanged' % (order,),
                 f2.compute_log_likelihood(ps.arr(B, Xo)), v)
            sc, se = f2.compute_sensitivities(ps.arr(B, Xo))
            for s in range(n_sim):
                for o in range(n_obs):
                    for k in range(n_t):
                        B.eq('missing values, sort_times%r: sens[%d,%d,%d] '
                             'in input order' % (order, s, o, k),
                             se[s][o][k],
                             g[(s * n_obs + o) * n_t + order[k]])


def case_composed(B, cfg):
    kinds = cfg['kinds']
    n_ids, n_obs, n_sim = cfg['n_ids'], cfg['n_obs'], cfg['n_sim']
    split = list(cfg['split'])
    n_t = sum(split)
    M = _vars(B, 'm', n_ids, n_obs, n_t)
    X = _vars(B, 'x', n_sim, n_obs, n_t)
    xarr = ps.arr
    if cfg.get('int_obs'):
        # simulated measurements handed over as an array of an integer dtype
        # (counts): the derivative identity is the same.  The float replay
        # runs at integral values (the point scaled by 1000 and rounded), so
        # there is no differential run at a common point for these jobs.
        xarr = ps.int_arr
        if not B.symbolic:
            X = [[[float(int(round(1000 * x))) for x in r] for r in i]
                 for i in X]
    bounds = [sum(split[:q]) for q in range(len(split) + 1)]
    Ms = [[[row[bounds[q]:bounds[q + 1]] for row in ind] for ind in M]
          for q in range(len(split))]
    Xs = [[[row[bounds[q]:bounds[q + 1]] for row in ind] for ind in X]
          for q in range(len(split))]
    for q, k in enumerate(kinds):
        _assume(B, k, Ms[q], Xs[q])

    def build(nested=False):
        parts = [make(k, ps.arr(B, Ms[q])) for q, k in enumerate(kinds)]
        if nested and len(parts) >= 3:
            return chi.ComposedPopulationFilter(
                [parts[0], chi.ComposedPopulationFilter(parts[1:])])
        return chi.ComposedPopulationFilter(parts)
    f = build()
    B.fact('n_times', f.n_times() == n_t)
    v = f.compute_log_likelihood(ps.arr(B, X))
    ref = 0
    for q, k in enumerate(kinds):
        ref = ref + make(k, ps.arr(B, Ms[q])).compute_log_likelihood(
            ps.arr(B, Xs[q]))
    B.eq('composed score = sum of parts on their time points', v, ref)
    if len(kinds) >= 3:
        B.eq('flat composition = nested composition', build(
            nested=True).compute_log_likelihood(ps.arr(B, X)), v)
    if len(kinds) >= 3 and not cfg.get('int_obs'):
        # a composition nested in a composition whose *inner* time points
        # were re-ordered before nesting: the simulated values of the inner
        # block handed over in that order give the same score
        n_in = n_t - split[0]
        for order_in in (list(range(n_in))[::-1],
                         list(range(1, n_in)) + [0]):
            if order_in == list(range(n_in)):
                continue
            parts = [make(k, ps.arr(B, Ms[q])) for q, k in enumerate(kinds)]
            inner = chi.ComposedPopulationFilter(parts[1:])
            inner.sort_times(order_in)
            outer = chi.ComposedPopulationFilter([parts[0], inner])
            cols = list(range(split[0])) + [split[0] + j for j in order_in]
            Xn = [[[X[s][o][c] for c in cols] for o in range(n_obs)]
                  for s in range(n_sim)]
            B.eq('nested composition, inner times re-ordered %r: score '
                 'unchanged' % (order_in,), outer.compute_log_likelihood(ps.arr(B, Xn)), v)
            scn, sen = outer.compute_sensitivities(ps.arr(B, Xn))
            B.eq('nested composition, inner times re-ordered %r: S1 score'
                 % (order_in,), scn, v)
            _, gn = B.grad(lambda xs: build().compute_log_likelihood(
                ps.arr(B, [[[xs[(s * n_obs + o) * n_t + t]
                             for t in range(n_t)] for o in range(n_obs)]
                           for s in range(n_sim)])),
                [X[s][o][t] for s in range(n_sim) for o in range(n_obs)
                 for t in range(n_t)])
            for s in range(n_sim):
                for o in range(n_obs):
                    for k, c in enumerate(cols):
                        B.eq('nested composition, inner times re-ordered %r: '
                             'sens[%d,%d,%d] in input order'
                             % (order_in, s, o, k),
                             sen[s][o][k], gn[(s * n_obs + o) * n_t + c])
    flat = [X[s][o][t] for s in range(n_sim) for o in range(n_obs)
            for t in range(n_t)]

    def val(xs):
        arr = [[[xs[(s * n_obs + o) * n_t + t] for t in range(n_t)]
                for o in range(n_obs)] for s in range(n_sim)]
        return build().compute_log_likelihood(ps.arr(B, arr))
    _, g = B.grad(val, flat)
    score, sens = f.compute_sensitivities(xarr(B, X))
    B.eq('composed S1 score', score, v)
    for s in range(n_sim):
        for o in range(n_obs):
            for t in range(n_t):
                B.eq('composed sens[%d,%d,%d]' % (s, o, t), sens[s][o][t],
                     g[(s * n_obs + o) * n_t + t])
    orders = list(itertools.permutations(range(n_t)))
    if len(orders) > 6:
        # (4 time points: the identity-free rotations and two scrambles)
        orders = [orders[k] for k in (1, 7, 9, 14, 17, 23)]
    for order in orders:
        if list(order) == list(range(n_t)):
            continue
        f2 = build()
        f2.sort_times(list(order))
        Xo = [[[X[s][o][order[k]] for k in range(n_t)]
               for o in range(n_obs)] for s in range(n_sim)]
        B.eq('composed sort_times%r: score unchanged' % (order,),
             f2.compute_log_likelihood(ps.arr(B, Xo)), v)
        sc, se = f2.compute_sensitivities(xarr(B, Xo))
        for s in range(n_sim):
            for o in range(n_obs):
                for k in range(n_t):
                    B.eq('composed sort_times%r: sens[%d,%d,%d] in input '
                         'order' % (order, s, o, k), se[s][o][k],
                         g[(s * n_obs + o) * n_t + order[k]])


def jobs(tier):
    out = []
    q = tier == 'quick'
    for kind in FILTERS:
        kde = kind.endswith('kde') or kind == 'mixture'
        sims = [4] if kind == 'mixture' else ([2, 3] if q else [2, 3, 4])
        if kind == 'mixture' and not q:
            sims = [4, 6]
        for n_sim in sims:
            shapes = [(1, 1, 1), (2, 1, 1), (1, 2, 1), (1, 1, 2)]
            if not kde:
                # (three time points: orders that are not their own inverse)
                shapes += [(2, 2, 2), (1, 1, 3)] if q else [
                    (2, 2, 2), (1, 1, 3), (3, 1, 3), (2, 2, 3)]
            elif n_sim == 2:
                shapes += [(1, 1, 3)]
            elif not q:
                shapes += [(2, 1, 2)]
            for (n_ids, n_obs, n_t) in shapes:
                if kind.endswith('kde') and n_sim >= 3 and \
                        n_ids * n_obs * n_t > (1 if q or n_sim >= 4 else 2):
                    continue
                out.append(('filter', 'case_filter', dict(
                    kind=kind, n_ids=n_ids, n_obs=n_obs, n_times=n_t,
                    n_sim=n_sim), {'max_paths': 64}))
    # one filter object used with two different numbers of simulated
    # individuals, one after the other
    for kind in FILTERS:
        if kind == 'mixture':
            seqs = [(4, 6)] if not q else []
        else:
            seqs = [(2, 3), (3, 2)]
        for n1, n2 in seqs:
            out.append(('filter', 'case_filter', dict(
                kind=kind, n_ids=1, n_obs=1, n_times=1, n_sim=n1,
                then_n_sim=n2), {'max_paths': 64}))
    for kind in FILTERS:
        n_sim = 4 if kind == 'mixture' else 2
        pats = [('pad', 1, 1, 1), ('pad', 2, 1, 2), ('ragged', 2, 1, 2),
                ('sparse', 3, 1, 2), ('uneven', 2, 1, 2)]
        pats += [('obs_first', 2, 2, 2), ('obs_last', 2, 2, 1),
                 ('obs_crossed', 2, 2, 2)]
        if not q:
            pats += [('obs_last', 2, 3, 2), ('obs_crossed', 3, 2, 2)]
        if not q:
            pats += [('ragged', 2, 2, 2), ('sparse', 3, 2, 2),
                     ('pad', 2, 2, 1), ('uneven', 3, 1, 3),
                     ('uneven', 2, 2, 2)]
        for (pat, n_ids, n_obs, n_t) in pats:
            if kind.endswith('kde') and n_ids * n_t > 4:
                continue
            if kind == 'mixture' and n_ids * n_t * n_obs > 6:
                continue      # (> 6 cells x 4 simulated: over the budget)
            if pat.startswith('obs_') and n_t > 1 and \
                    kind not in ('gaussian', 'lognormal'):
                continue      # (the KDE / mixture kinds at one time point)
            out.append(('missing', 'case_missing', dict(
                kind=kind, pattern=pat, n_ids=n_ids, n_obs=n_obs,
                n_times=n_t, n_sim=n_sim), {'max_paths': 128}))
    pairs = [('gaussian', 'lognormal'), ('lognormal', 'gaussian'),
             ('gaussian', 'gaussian')]
    if not q:
        pairs += [('gaussian', 'gaussian_kde'), ('mixture', 'gaussian'),
                  ('lognormal_kde', 'lognormal')]
    # three and four sub-filters (time offsets are cumulative)
    triples = [(('gaussian', 'lognormal', 'gaussian'), (1, 1, 1)),
               (('lognormal', 'gaussian', 'lognormal'), (2, 1, 1)),
               (('gaussian', 'gaussian', 'lognormal', 'gaussian'),
                (1, 1, 1, 1))]
    if not q:
        triples += [(('gaussian', 'gaussian_kde', 'lognormal'), (1, 1, 1)),
                    (('gaussian', 'lognormal', 'gaussian'), (1, 2, 2))]
    for kinds_, split in triples:
        out.append(('composed', 'case_composed', dict(
            kinds=list(kinds_), n_ids=1, n_obs=1, n_sim=2, split=split),
            {'max_paths': 64}))
    for p in pairs:
        n_sim = 4 if 'mixture' in p else 2
        for split in ([(1, 1), (2, 1)] if q else [(1, 1), (2, 1), (1, 2)]):
            if any(k.endswith('kde') for k in p) and sum(split) > 2:
                continue
            out.append(('composed', 'case_composed', dict(
                kinds=list(p), n_ids=1, n_obs=1, n_sim=n_sim, split=split),
                {'max_paths': 64}))
    # simulated measurements of an integer dtype (counts)
    for kinds_, split in ((('gaussian', 'gaussian'), (1, 1)),
                          (('gaussian', 'gaussian'), (2, 1)),
                          (('gaussian', 'lognormal', 'gaussian'), (1, 1, 1))):
        out.append(('composed', 'case_composed', dict(
            kinds=list(kinds_), n_ids=1, n_obs=1, n_sim=2, split=split,
            int_obs=True), {'max_paths': 64, 'diffcheck': False}))
    return out


BOUNDS = dict(
    quick='5 filter classes; measured individuals 1..2, observables 1..2 '
          '(missing-value masks shared by or differing between the '
          'observables), '
          'times 1..2 (parametric filters also 2x2x2; 1x1x3 for all time '
          'orders), simulated individuals '
          '2..3 (4 for the mixture; KDE with 3 simulated individuals only on '
          'one cell); one filter object evaluated with 2 then 3 and 3 then 2 '
          'simulated individuals; composed filters over 3 pairs with splits (1,1), (2,1) '
          'and over 3-4 sub-filters (flat = nested), also with simulated '
          'measurements of an integer dtype; '
          'all time permutations; missing values: an all-missing extra '
          'individual, ragged, sparse and uneven (different numbers of '
          'measured individuals per time point) patterns on <= 3 individuals '
          'x 2 times, each also under every re-ordering of the time points',
    thorough='up to 3 times, 4 simulated individuals (6 for the mixture), '
             'composed pairs including KDE and mixture filters',
    outside='degenerate simulated samples (zero variance); larger arrays; '
            'missing values are carried by a stub of numpy.ma for symbolic '
            'payloads (chisym/facade_ma.py), cross-checked against the real '
            'numpy.ma by the differential float run of every case')
TRUSTED = ['z3', 'canonical exp/log rules (log-sum-exp shift follows from '
           'exp(a-m) = exp(a)/exp(m) and log(c x) = log c + log x)',
           'object-dtype NumPy (np.var, np.mean, np.max)']
