"""C04 - error models are the documented normalised densities with exact
sensitivities."""
import math

import numpy as np

from . import refs

EXPLANATION = (
    'Each chi error model class is executed on NumPy object arrays of '
    'symbolic reals (all parameters, model outputs, observations and output '
    'sensitivities are z3 variables); value, pointwise values, sensitivities, '
    'the normalisation identity (push-forward of a standard normal through '
    'the documented generative map) and the -inf guards are decided by z3 '
    'for every real input within the enumerated lengths.')


def case_value(B, cfg):
    name, n = cfg['model'], cfg['n']
    m = refs.error_model(name)
    par = B.vars('sigma', refs.em_nparams(name))
    yb = B.vars('ybar', n)
    y = B.vars('y', n)
    refs.em_assume_support(B, name, par, yb, y)
    value = m.compute_log_likelihood(par, yb, y)
    pw = m.compute_pointwise_ll(par, yb, y)
    ref = [refs.em_logpdf(B, name, par, yb[j], y[j]) for j in range(n)]
    B.eq('value=sum-documented-logpdf', value, sum(ref[1:], ref[0]))
    B.fact('pointwise-shape', np.shape(pw) == (n,), str(np.shape(pw)))
    for j in range(n):
        B.eq('pointwise[%d]=documented' % j, pw[j], ref[j])
    B.eq('sum(pointwise)=value', np.sum(pw), value)


def case_sens(B, cfg):
    name, n, P = cfg['model'], cfg['n'], cfg['P']
    m = refs.error_model(name)
    k = refs.em_nparams(name)
    par = B.vars('sigma', k)
    yb = B.vars('ybar', n)
    y = B.vars('y', n)
    S = [[B.var('S%d_%d' % (j, p)) for p in range(P)] for j in range(n)]
    refs.em_assume_support(B, name, par, yb, y)
    sens_in = np.array(S, dtype=object).reshape((n, P)) if B.symbolic \
        else np.array(S, dtype=float).reshape((n, P))
    score, sens = m.compute_sensitivities(par, yb, sens_in, y)
    value, g = B.grad(
        lambda xs: m.compute_log_likelihood(xs[n:], xs[:n], y), yb + par)
    B.eq('S1-score=value', score, value)
    B.fact('sens-length', np.shape(sens) == (P + k,), str(np.shape(sens)))
    for p in range(P):
        ref = 0
        for j in range(n):
            ref = ref + g[j] * S[j][p]
        B.eq('sens[psi %d]=chain-rule' % p, sens[p], ref)
    for i in range(k):
        B.eq('sens[sigma %d]=dL/dsigma' % i, sens[P + i], g[n + i])


def case_seq(B, cfg):
    """evaluations in a row on one model instance, with the caller's
    containers (observations, model outputs, parameters) re-used and updated
    in place between the calls: every evaluation is the documented density of
    the values the containers hold at that moment."""
    name, n = cfg['model'], cfg['n']
    m = refs.error_model(name)
    k = refs.em_nparams(name)
    dt = object if B.symbolic else float
    rounds = []
    for r in range(2):
        par = B.vars('sigma%d_' % r, k)
        yb = B.vars('ybar%d_' % r, n)
        y = B.vars('y%d_' % r, n)
        refs.em_assume_support(B, name, par, yb, y)
        rounds.append((par, yb, y))
    cpar = np.array(rounds[0][0], dtype=dt)
    cyb = np.array(rounds[0][1], dtype=dt)
    cy = np.array(rounds[0][2], dtype=dt)
    S = np.array([[B.var('S%d' % j)] for j in range(n)], dtype=dt)
    # which containers change between the calls
    plan = cfg['plan']
    cur = [list(x) for x in rounds[0]]
    for step, (what, change) in enumerate(plan):
        for c in change:
            idx = 'pby'.index(c)
            cont = (cpar, cyb, cy)[idx]
            cont[:] = np.array(rounds[1][idx], dtype=dt)
            cur[idx] = list(rounds[1][idx])
        par, yb, y = cur
        ref = [refs.em_logpdf(B, name, par, yb[j], y[j]) for j in range(n)]
        tot = sum(ref[1:], ref[0])
        tag = 'call %d (%s)' % (step, what)
        if what == 'value':
            B.eq('%s: value = documented density of the current contents'
                 % tag, m.compute_log_likelihood(cpar, cyb, cy), tot)
        elif what == 'pointwise':
            pw = m.compute_pointwise_ll(cpar, cyb, cy)
            for j in range(n):
                B.eq('%s: pointwise[%d] = documented' % (tag, j), pw[j],
                     ref[j])
        else:
            score, sens = m.compute_sensitivities(cpar, cyb, S, cy)
            B.eq('%s: S1 score = documented' % tag, score, tot)
            # (a fresh instance on fresh containers is the exact gradient:
            # case_sens)
            _, sens2 = refs.error_model(name).compute_sensitivities(
                list(par), list(yb), np.array(S), list(y))
            B.fact('%s: sens length' % tag, np.shape(sens) == (1 + k,))
            for i in range(min(len(sens), 1 + k)):
                B.eq('%s: sens[%d] = that of a fresh instance on fresh '
                     'containers' % (tag, i), sens[i], sens2[i])
    for cont, orig in ((cpar, cur[0]), (cyb, cur[1]), (cy, cur[2])):
        B.fact('caller-owned container left as the caller set it',
               all(a is b or a == b for a, b in zip(list(cont), orig))
               if not B.symbolic else
               all(a is b for a, b in zip(list(cont), orig)))


def case_norm(B, cfg):
    """pointwise_ll(g(eps)) + log g'(eps) = log phi(eps), g' > 0, g affine
    (or log g affine) in eps: the density is the push-forward of N(0,1)
    through the documented generative map, hence integrates to one on the
    support."""
    name = cfg['model']
    m = refs.error_model(name)
    par = B.vars('sigma', refs.em_nparams(name))
    yb = B.var('ybar')
    eps = B.var('eps')
    refs.em_assume_support(B, name, par, [yb])
    yv, dg = B.grad(
        lambda xs: refs.em_generative(B, name, par, yb, xs[0]), [eps])
    dg = dg[0]
    B.holds('generative-map-increasing', dg > 0)
    if name == 'LogNormal':
        B.holds('support-positive', yv > 0)
        # log g is affine in eps with slope sigma > 0: onto (0, inf)
        B.eq('log-g-affine', dg, par[0] * yv)
    else:
        # g affine in eps with positive slope: onto R
        B.eq('g-affine', dg, refs.em_sigma_tot(name, par, yb))
    pw = m.compute_pointwise_ll(par, [yb], [yv])
    B.eq('change-of-variables', pw[0] + B.log(dg),
         refs.std_normal_logpdf(B, eps))


def case_guard(B, cfg):
    """Outside the support every evaluation returns -inf."""
    name, n, which = cfg['model'], cfg['n'], cfg['which']
    m = refs.error_model(name)
    k = refs.em_nparams(name)
    par = B.vars('sigma', k)
    yb = B.vars('ybar', n)
    y = B.vars('y', n)
    if which < k:
        B.assume(par[which] <= 0)
    else:
        B.assume(yb[which - k] <= 0)
    value = m.compute_log_likelihood(par, yb, y)
    B.fact('value=-inf', isinstance(value, float) and value == -math.inf,
           repr(value))
    pw = m.compute_pointwise_ll(par, yb, y)
    B.fact('pointwise=-inf', np.shape(pw) == (n,) and all(
        isinstance(v, float) and v == -math.inf for v in pw), repr(pw))
    S = np.array([[B.var('S%d' % j)] for j in range(n)])
    score, sens = m.compute_sensitivities(par, yb, S, y)
    B.fact('S1-score=-inf', isinstance(score, float) and score == -math.inf,
           repr(score))
    B.fact('S1-sens-length', np.shape(sens) == (1 + k,), repr(sens))


def jobs(tier):
    out = []
    ns = [1, 2, 3] if tier == 'quick' else [1, 2, 3, 4, 5, 6, 8]
    Ps = [0, 1, 2] if tier == 'quick' else [0, 1, 2, 3, 4]
    for name in refs.ERROR_MODELS:
        for n in ns:
            out.append(('value', 'case_value', dict(model=name, n=n), {}))
            for P in Ps:
                out.append(('sens', 'case_sens',
                            dict(model=name, n=n, P=P), {}))
        out.append(('norm', 'case_norm', dict(model=name), {}))
        plans = [[('value', ''), ('value', 'y')],
                 [('value', ''), ('value', 'b'), ('value', 'p')],
                 [('pointwise', ''), ('pointwise', 'y'), ('value', '')],
                 [('value', ''), ('sens', 'y'), ('value', 'bp')],
                 [('sens', ''), ('sens', 'p'), ('pointwise', 'yb')],
                 [('pointwise', ''), ('value', 'yb'), ('sens', '')]]
        for n in (1, 2):
            for plan in plans:
                out.append(('seq', 'case_seq',
                            dict(model=name, n=n, plan=plan), {}))
        k = refs.em_nparams(name)
        for n in ns[:3]:
            nw = k + (n if name == 'LogNormal' else 0)
            for which in range(nw):
                out.append(('guard', 'case_guard',
                            dict(model=name, n=n, which=which), {}))
    return out


BOUNDS = dict(
    quick='n_obs in 1..3, sensitivity width P in 0..2, 4 error models; 6 '
          'plans of 2-3 evaluations in a row on one instance with the '
          'caller\'s containers updated in place (n_obs 1..2)',
    thorough='n_obs in {1..6, 8}, sensitivity width P in 0..4, 4 error '
             'models; the same 6 in-place plans',
    outside='longer vectors; floating-point rounding (reals are used); '
            'multiplicative models with non-positive sigma_tot')
TRUSTED = ['z3 (QF_NRA with abstracted log/exp atoms + instantiated lemmas)',
           'object-dtype NumPy loops (validated by differential float run)',
           'harness/refs.py reference densities written from the docstrings']
