"""C05 - population models: documented densities, additivity, layout
invariance, exact sensitivities in all return forms."""
import math

import numpy as np

import chi

from . import popspec as ps

EXPLANATION = (
    'Every population model class of chi is executed on symbolic parameters '
    'and individual values; z3 decides value = documented density sum, '
    'equality of value / individual parameters across the flat, matrix and '
    'per-individual tensor layouts, composed = sum of parts, and that the '
    'sensitivities in the separate, flattened and reduced return forms equal '
    'the derivative of T(obs, theta) = loglik + <G, psi(obs, theta)> (G = '
    'symbolic upstream sensitivities), with lengths equal to the reported '
    'counts.')


def _obs(B, n_ids, n_dim, prefix='x'):
    return [[B.var('%s%d_%d' % (prefix, i, d)) for d in range(n_dim)]
            for i in range(n_ids)]


def case_value(B, cfg):
    kind, n_dim, n_ids = cfg['kind'], cfg['n_dim'], cfg['n_ids']
    m = ps.make(kind, n_dim, n_ids)
    th = ps.theta_vars(B, kind, n_dim, n_ids)
    thm = ps.theta_matrix(th, kind, n_dim, n_ids)
    if ps.is_delta(kind):
        return _delta_value(B, cfg, m, th, thm)
    obs = _obs(B, n_ids, n_dim)
    ps.assume_support(B, kind, thm, obs)
    ref = None
    for i in range(n_ids):
        for d in range(n_dim):
            t = ps.logpdf(B, kind, [thm[0][d], thm[1][d]], obs[i][d])
            ref = t if ref is None else ref + t
    v_flat = m.compute_log_likelihood(ps.arr(B, th), ps.arr(B, obs))
    B.eq('value(flat)=documented', v_flat, ref)
    if n_dim == 1:
        v1 = m.compute_log_likelihood(
            ps.arr(B, th), ps.arr(B, [r[0] for r in obs]))
        B.eq('value(flat obs)=documented', v1, ref)
    v_mat = m.compute_log_likelihood(ps.arr(B, thm), ps.arr(B, obs))
    B.eq('value(matrix)=documented', v_mat, ref)
    v_ten = m.compute_log_likelihood(
        ps.arr(B, [thm for _ in range(n_ids)]), ps.arr(B, obs))
    B.eq('value(tensor)=documented', v_ten, ref)
    # individual parameters across layouts
    psi_ref = [[ps.transform(B, kind, [thm[0][d], thm[1][d]], obs[i][d])
                for d in range(n_dim)] for i in range(n_ids)]
    for lay, par in (('flat', th), ('matrix', thm),
                     ('tensor', [thm for _ in range(n_ids)])):
        try:
            psi = m.compute_individual_parameters(
                ps.arr(B, par), ps.arr(B, obs))
        except Exception as e:
            B.fact('no-exception:individual-parameters(%s)' % lay, False,
                   repr(e))
            continue
        B.eq_array('individual-parameters(%s)' % lay, psi, psi_ref)
    flat_eta = [x for r in obs for x in r]
    try:
        psi = m.compute_individual_parameters(
            ps.arr(B, th), ps.arr(B, flat_eta))
        B.eq_array('individual-parameters(flat eta)', psi, psi_ref)
    except Exception as e:
        B.fact('no-exception:individual-parameters(flat eta)', False, repr(e))
    # a second evaluation on the same instance with the caller's arrays
    # overwritten in place (every entry shifted by one: stays in the support)
    cth, cobs = ps.arr(B, thm), ps.arr(B, obs)
    m.compute_log_likelihood(cth, cobs)
    thm2 = [[x + 1 for x in r] for r in thm]
    obs2 = [[x + 1 for x in r] for r in obs]
    cth[...] = ps.arr(B, thm2)
    cobs[...] = ps.arr(B, obs2)
    ref2 = None
    for i in range(n_ids):
        for d in range(n_dim):
            t = ps.logpdf(B, kind, [thm2[0][d], thm2[1][d]], obs2[i][d])
            ref2 = t if ref2 is None else ref2 + t
    B.eq('second call, containers overwritten in place: value = documented '
         'density of the current contents',
         m.compute_log_likelihood(cth, cobs), ref2)


def _delta_value(B, cfg, m, th, thm):
    kind, n_dim, n_ids = cfg['kind'], cfg['n_dim'], cfg['n_ids']
    # in-support: the individuals carry exactly the population values
    if kind == 'pooled':
        want = [[thm[0][d] for d in range(n_dim)] for i in range(n_ids)]
    else:
        want = [[thm[i][d] for d in range(n_dim)] for i in range(n_ids)]
    v = m.compute_log_likelihood(ps.arr(B, th), ps.arr(B, want))
    B.fact('value(in support)=0', not isinstance(v, float) and v == 0
           or (isinstance(v, (int, float)) and v == 0), repr(v))
    psi = m.compute_individual_parameters(
        ps.arr(B, th), ps.arr(B, np.zeros((n_ids, n_dim)).tolist()))
    B.eq_array('individual-parameters', psi, want)
    # free observations: 0 exactly on the paths where everything is equal
    obs = _obs(B, n_ids, n_dim)
    v = m.compute_log_likelihood(ps.arr(B, th), ps.arr(B, obs))
    alleq = True
    for i in range(n_ids):
        for d in range(n_dim):
            if not bool(obs[i][d] == want[i][d]):
                alleq = False
    exp = 0 if alleq else -math.inf
    B.fact('value=point-mass', isinstance(v, (int, float)) and v == exp,
           '%r vs %r' % (v, exp))
    if kind == 'pooled':
        v2 = m.compute_log_likelihood(ps.arr(B, thm), ps.arr(B, want))
        B.fact('value(matrix)=0', v2 == 0, repr(v2))
    v3 = m.compute_log_likelihood(
        ps.arr(B, [[want[i]] for i in range(n_ids)]), ps.arr(B, want))
    B.fact('value(tensor)=0', v3 == 0, repr(v3))


def _psi(B, m, kind, th, obs):
    """chi's own transform; for centred models the documented identity is
    used so that a missing method is reported once (case_value) and does not
    mask the sensitivity obligations."""
    if ps.is_nc(kind):
        return m.compute_individual_parameters(ps.arr(B, th), ps.arr(B, obs))
    return obs


def _T(B, m, kind, n_ids, n_dim, G):
    """T(obs, theta) = loglik(theta; obs) + sum_id G[i][d] psi[i][d]."""
    def f(xs):
        obs = [[xs[i * n_dim + d] for d in range(n_dim)]
               for i in range(n_ids)]
        th = xs[n_ids * n_dim:]
        v = m.compute_log_likelihood(ps.arr(B, th), ps.arr(B, obs))
        if G is not None:
            psi = _psi(B, m, kind, th, obs)
            for i in range(n_ids):
                for d in range(n_dim):
                    v = v + G[i][d] * psi[i][d]
        return v
    return f


def case_sens(B, cfg):
    kind, n_dim, n_ids = cfg['kind'], cfg['n_dim'], cfg['n_ids']
    up = cfg['upstream']
    m = ps.make(kind, n_dim, n_ids)
    th = ps.theta_vars(B, kind, n_dim, n_ids)
    thm = ps.theta_matrix(th, kind, n_dim, n_ids)
    P = ps.p_per_dim(kind, n_ids)
    G = _obs(B, n_ids, n_dim, 'G') if up else None
    Garr = ps.arr(B, G) if up else None
    if ps.is_delta(kind):
        if kind == 'pooled':
            obs = [[thm[0][d] for d in range(n_dim)] for i in range(n_ids)]
        else:
            obs = [[thm[i][d] for d in range(n_dim)] for i in range(n_ids)]
        zero = 0.0
        dpsi_ref = [[G[i][d] if up else zero for d in range(n_dim)]
                    for i in range(n_ids)]
        dth_ref = [[[zero] * n_dim for _ in range(P)] for i in range(n_ids)]
        value_ref = 0
        if kind == 'pooled':
            red_ref = [sum((dpsi_ref[i][d] for i in range(1, n_ids)),
                           dpsi_ref[0][d]) for d in range(n_dim)]
        else:
            red_ref = [dpsi_ref[i][d] for i in range(n_ids)
                       for d in range(n_dim)]
    else:
        obs = _obs(B, n_ids, n_dim)
        ps.assume_support(B, kind, thm, obs)
        flat_obs = [x for r in obs for x in r]
        value_ref, g = B.grad(_T(B, m, kind, n_ids, n_dim, G), flat_obs + th)
        if up:
            # remove the <G, psi> part from the value (it is not in the score)
            psi = _psi(B, m, kind, th, obs)
            for i in range(n_ids):
                for d in range(n_dim):
                    value_ref = value_ref - G[i][d] * psi[i][d]
        dpsi_ref = [[g[i * n_dim + d] for d in range(n_dim)]
                    for i in range(n_ids)]
        gth = g[n_ids * n_dim:]
        dth_flat_ref = gth
        red_ref = [x for r in dpsi_ref for x in r] + list(gth)

    # --- separate form
    for lay, par in (('flat', th), ('matrix', None), ('tensor', None)):
        if lay == 'matrix':
            if kind == 'hetero':
                continue
            par = thm
        if lay == 'tensor':
            if kind == 'hetero':
                par = [[obs[i]] for i in range(n_ids)]
            else:
                par = [thm for _ in range(n_ids)]
        try:
            out = m.compute_sensitivities(
                ps.arr(B, par), ps.arr(B, obs), dlogp_dpsi=Garr,
                flattened=False)
        except Exception as e:
            B.fact('no-exception:sens(%s,separate)' % lay, False, repr(e))
            continue
        score, dpsi, dth = out
        B.eq('score(%s,separate)' % lay, score, value_ref)
        B.eq_array('sens-dpsi(%s,separate)' % lay, dpsi, dpsi_ref)
        if ps.is_delta(kind):
            B.fact('sens-dtheta(%s,separate)=0' % lay, np.shape(dth) == (
                n_ids, P, n_dim) and all(x == 0 for x in np.ravel(dth)),
                   repr(np.shape(dth)))
        else:
            B.fact('sens-dtheta-shape(%s,separate)' % lay,
                   np.shape(dth) == (n_ids, P, n_dim), repr(np.shape(dth)))
            if np.shape(dth) == (n_ids, P, n_dim):
                # per-individual contributions must add up to the gradient
                for p in range(P):
                    for d in range(n_dim):
                        tot = dth[0][p][d]
                        for i in range(1, n_ids):
                            tot = tot + dth[i][p][d]
                        B.eq('sens-dtheta(%s,separate)[%d,%d]' % (lay, p, d),
                             tot, dth_flat_ref[p * n_dim + d])
    # --- flattened form
    score, dpsi, dth = m.compute_sensitivities(
        ps.arr(B, th), ps.arr(B, obs), dlogp_dpsi=Garr)
    B.eq('score(flattened)', score, value_ref)
    B.eq_array('sens-dpsi(flattened)', dpsi, dpsi_ref)
    B.fact('sens-dtheta-length(flattened)=n_parameters',
           np.shape(dth) == (m.n_parameters(),),
           '%r vs %d' % (np.shape(dth), m.n_parameters()))
    if np.shape(dth) == (m.n_parameters(),):
        if ps.is_delta(kind):
            B.fact('sens-dtheta(flattened)=0', all(x == 0 for x in dth))
        else:
            B.eq_array('sens-dtheta(flattened)', dth, dth_flat_ref)
    # --- reduced (hierarchical) form
    score, ds = m.compute_sensitivities(
        ps.arr(B, th), ps.arr(B, obs), dlogp_dpsi=Garr, reduce=True)
    nb, nt = m.n_hierarchical_parameters(n_ids)
    B.eq('score(reduced)', score, value_ref)
    B.fact('sens-length(reduced)=n_hierarchical_parameters',
           np.shape(ds) == (nb + nt,), '%r vs %d+%d' % (np.shape(ds), nb, nt))
    if np.shape(ds) == (nb + nt,) and len(red_ref) == nb + nt:
        B.eq_array('sens(reduced)', ds, red_ref)
    B.fact('n_parameters', m.n_parameters() == len(th))
    # --- per-individual tensor whose rows differ (what a covariate model
    # hands down): every individual is evaluated at its own parameters
    if not ps.is_delta(kind) and n_ids >= 2:
        one = ps.make(kind, n_dim, 1)
        th_i = [ps.theta_vars(B, kind, n_dim, 1, prefix='thi%d_' % i)
                for i in range(n_ids)]
        thm_i = [ps.theta_matrix(t_, kind, n_dim, 1) for t_ in th_i]
        for i in range(n_ids):
            ps.assume_support(B, kind, thm_i[i], [obs[i]])
        try:
            score, dpsi, dth = m.compute_sensitivities(
                ps.arr(B, thm_i), ps.arr(B, obs), dlogp_dpsi=Garr,
                flattened=False)
        except Exception as e:
            B.fact('no-exception:sens(tensor with distinct rows)', False,
                   repr(e))
            return
        tot = 0
        for i in range(n_ids):
            s_i, dp_i, dt_i = one.compute_sensitivities(
                ps.arr(B, th_i[i]), ps.arr(B, [obs[i]]),
                dlogp_dpsi=ps.arr(B, [G[i]]) if up else None)
            tot = tot + s_i
            B.eq_array('distinct rows: sens-dpsi of individual %d' % i,
                       dpsi[i], dp_i[0])
            if np.shape(dth) == (n_ids, P, n_dim):
                B.eq_array('distinct rows: sens-dtheta of individual %d' % i,
                           np.ravel(dth[i]), dt_i)
        B.eq('distinct rows: score = sum over individuals', score, tot)
        B.eq('distinct rows: value', m.compute_log_likelihood(
            ps.arr(B, thm_i), ps.arr(B, obs)), tot)


COMPOSITIONS_Q = [
    ('gaussian', 'pooled'), ('pooled', 'lognormal'),
    ('hetero', 'gaussian_nc'), ('lognormal_nc', 'pooled', 'gaussian'),
    ('truncgauss', 'hetero'),
]


def case_composed(B, cfg):
    """Composed model = sum of its parts on their own dims/parameters."""
    kinds, dims, n_ids = cfg['kinds'], cfg['dims'], cfg['n_ids']
    parts = [ps.make(k, nd, n_ids) for k, nd in zip(kinds, dims)]
    m = chi.ComposedPopulationModel(parts)
    m.set_n_ids(n_ids)
    ths, obss, Gs = [], [], []
    value_ref = 0
    solo = [ps.make(k, nd, n_ids) for k, nd in zip(kinds, dims)]
    up = cfg.get('upstream', True)
    dpsi_cols, dth_parts, bottom_cols = [], [], []
    for q, (k, nd) in enumerate(zip(kinds, dims)):
        th = ps.theta_vars(B, k, nd, n_ids, prefix='th%d_' % q)
        thm = ps.theta_matrix(th, k, nd, n_ids)
        G = _obs(B, n_ids, nd, 'G%d_' % q) if up else None
        if k == 'pooled':
            obs = [[thm[0][d] for d in range(nd)] for i in range(n_ids)]
        elif k == 'hetero':
            obs = [[thm[i][d] for d in range(nd)] for i in range(n_ids)]
        else:
            obs = _obs(B, n_ids, nd, 'x%d_' % q)
            ps.assume_support(B, k, thm, obs)
        ths.append(th)
        obss.append(obs)
        Gs.append(G)
        # the part alone (vouched for by case_value / case_sens)
        s, dp, dt = solo[q].compute_sensitivities(
            ps.arr(B, th), ps.arr(B, obs),
            dlogp_dpsi=ps.arr(B, G) if up else None)
        value_ref = value_ref + s
        dpsi_cols.append(dp)
        dth_parts.append(dt)
        s2, ds2 = solo[q].compute_sensitivities(
            ps.arr(B, th), ps.arr(B, obs),
            dlogp_dpsi=ps.arr(B, G) if up else None, reduce=True)
        nb, nt = solo[q].n_hierarchical_parameters(n_ids)
        bottom_cols.append((ds2[:nb], ds2[nb:], nb))
    theta = [x for th in ths for x in th]
    obs = [[x for q in range(len(kinds)) for x in obss[q][i]]
           for i in range(n_ids)]
    G = [[x for q in range(len(kinds)) for x in Gs[q][i]]
         for i in range(n_ids)] if up else None
    v = m.compute_log_likelihood(ps.arr(B, theta), ps.arr(B, obs))
    ref_v = 0
    for q in range(len(kinds)):
        ref_v = ref_v + solo[q].compute_log_likelihood(
            ps.arr(B, ths[q]), ps.arr(B, obss[q]))
    B.eq('composed-value=sum-of-parts', v, ref_v)
    score, dpsi, dth = m.compute_sensitivities(
        ps.arr(B, theta), ps.arr(B, obs),
        dlogp_dpsi=ps.arr(B, G) if up else None)
    B.eq('composed-score', score, value_ref)
    B.eq_array('composed-sens-dpsi', dpsi, np.hstack(dpsi_cols))
    B.eq_array('composed-sens-dtheta', dth, np.hstack(dth_parts))
    B.fact('composed-n_parameters', m.n_parameters() == len(theta))
    score, ds = m.compute_sensitivities(
        ps.arr(B, theta), ps.arr(B, obs),
        dlogp_dpsi=ps.arr(B, G) if up else None, reduce=True)
    nb, nt = m.n_hierarchical_parameters(n_ids)
    B.fact('composed-reduced-length', np.shape(ds) == (nb + nt,),
           '%r vs %d+%d' % (np.shape(ds), nb, nt))
    # documented order: per individual the non-special dims, then the
    # population parameters sub-model by sub-model
    ref = []
    for i in range(n_ids):
        for q, (k, nd) in enumerate(zip(kinds, dims)):
            b, t, n_b = bottom_cols[q]
            if n_b:
                ref.extend(list(b[i * nd:(i + 1) * nd]))
    for q in range(len(kinds)):
        ref.extend(list(bottom_cols[q][1]))
    if np.shape(ds) == (nb + nt,) and len(ref) == nb + nt:
        B.eq_array('composed-sens(reduced)', ds, ref)
    else:
        B.fact('composed-reduced-reference-length', False,
               '%d vs %d' % (len(ref), nb + nt))
    try:
        psi = m.compute_individual_parameters(
            ps.arr(B, theta), ps.arr(B, obs))
    except Exception as e:
        B.fact('no-exception:composed-individual-parameters', False, repr(e))
        return
    psi_ref = []
    for i in range(n_ids):
        row = []
        for q, (k, nd) in enumerate(zip(kinds, dims)):
            thm = ps.theta_matrix(ths[q], k, nd, n_ids)
            for d in range(nd):
                if ps.is_delta(k):
                    row.append(obss[q][i][d])
                else:
                    row.append(ps.transform(
                        B, k, [thm[0][d], thm[1][d]], obss[q][i][d]))
        psi_ref.append(row)
    B.eq_array('composed-individual-parameters', psi, psi_ref)


def case_composed_cov(B, cfg):
    """Composed model whose parts carry covariates: value, sensitivities and
    individual parameters = those of the parts on their own dimensions,
    parameters *and covariate columns*."""
    kinds, covs, n_ids = cfg['kinds'], cfg['covs'], cfg['n_ids']

    def part(k, c):
        m_ = ps.make(k, 1, n_ids)
        if c:
            m_ = chi.CovariatePopulationModel(
                m_, chi.LinearCovariateModel(n_cov=c))
        return m_
    parts = [part(k, c) for k, c in zip(kinds, covs)]
    solo = [part(k, c) for k, c in zip(kinds, covs)]
    m = chi.ComposedPopulationModel(parts)
    m.set_n_ids(n_ids)
    n_cov = sum(covs)
    chis = [[B.var('chi%d_%d' % (i, c)) for c in range(n_cov)]
            for i in range(n_ids)]
    ths, obss, Gs, cols = [], [], [], []
    c0 = 0
    for q, (k, c) in enumerate(zip(kinds, covs)):
        n_p = solo[q].n_parameters()
        th = [B.var('th%d_%d' % (q, j)) for j in range(n_p)]
        obs = _obs(B, n_ids, 1, 'x%d_' % q)
        G = _obs(B, n_ids, 1, 'G%d_' % q)
        own = [[chis[i][c0 + j] for j in range(c)] for i in range(n_ids)]
        # support: every (shifted) scale parameter and log-normal value > 0
        if k != 'pooled':
            if c:
                pn = solo[q].get_parameter_names()
                for i in range(n_ids):
                    sc = th[1]
                    for j in range(c):
                        sc = sc + th[2 + c + j] * own[i][j]
                    B.assume(sc > 0)
            else:
                B.assume(th[1] > 0)
            if k.startswith('lognormal'):
                for i in range(n_ids):
                    B.assume(obs[i][0] > 0)
        if k == 'pooled':
            obs = [[th[0] + sum(th[1 + j] * own[i][j] for j in range(c))]
                   for i in range(n_ids)] if c else \
                [[th[0]] for i in range(n_ids)]
        ths.append(th)
        obss.append(obs)
        Gs.append(G)
        cols.append(own)
        c0 += c
    theta = [x for th in ths for x in th]
    obs = [[obss[q][i][0] for q in range(len(kinds))] for i in range(n_ids)]
    G = [[Gs[q][i][0] for q in range(len(kinds))] for i in range(n_ids)]
    cov = ps.arr(B, chis)

    def kw(q):
        return dict(covariates=ps.arr(B, cols[q])) if covs[q] else {}
    v = m.compute_log_likelihood(ps.arr(B, theta), ps.arr(B, obs),
                                 covariates=cov)
    ref = 0
    for q in range(len(kinds)):
        ref = ref + solo[q].compute_log_likelihood(
            ps.arr(B, ths[q]), ps.arr(B, obss[q]), **kw(q))
    B.eq('composed (covariates): value = sum of parts on their own '
         'covariate columns', v, ref)
    score, dpsi, dth = m.compute_sensitivities(
        ps.arr(B, theta), ps.arr(B, obs), covariates=cov,
        dlogp_dpsi=ps.arr(B, G))
    B.eq('composed (covariates): S1 score = value', score, v)
    dp_ref, dt_ref = [], []
    for q in range(len(kinds)):
        s_, dp, dt = solo[q].compute_sensitivities(
            ps.arr(B, ths[q]), ps.arr(B, obss[q]),
            dlogp_dpsi=ps.arr(B, Gs[q]), **kw(q))
        dp_ref.append(dp)
        dt_ref.append(dt)
    B.eq_array('composed (covariates): sens d/d individual values', dpsi,
               np.hstack(dp_ref))
    B.eq_array('composed (covariates): sens d/d theta', dth,
               np.hstack(dt_ref))
    psi = m.compute_individual_parameters(
        ps.arr(B, theta), ps.arr(B, obs), covariates=cov)
    psi_ref = np.hstack([solo[q].compute_individual_parameters(
        ps.arr(B, ths[q]), ps.arr(B, obss[q]), **kw(q))
        for q in range(len(kinds))])
    B.eq_array('composed (covariates): individual parameters', psi, psi_ref)


def case_covariate(B, cfg):
    """covariate-dependent models against the underlying model evaluated
    individual by individual (the case of C07): upstream sensitivities
    through a wrapped model without bottom-level parameters included"""
    from . import c07
    return c07.case_cov(B, cfg)


def jobs(tier):
    out = []
    for kind, nd, nc in (('pooled', 2, 1), ('pooled', 2, 2),
                         ('pooled', 1, 2), ('gaussian_nc', 2, 1),
                         ('lognormal', 2, 2)) + (
            () if tier == 'quick' else (('pooled', 3, 1), ('pooled', 3, 2))):
        out.append(('covariate', 'case_covariate', dict(
            kind=kind, n_dim=nd, n_cov=nc, n_ids=2 if nd < 3 else 3),
            {'terms_labels': r'^sample\['}))
    for kinds, covs in ((('gaussian', 'lognormal'), (1, 1)),
                        (('gaussian', 'gaussian_nc', 'pooled'), (2, 1, 0)),
                        (('pooled', 'lognormal_nc'), (1, 2)),
                        (('lognormal', 'gaussian', 'gaussian'), (1, 0, 1))):
        out.append(('composed_cov', 'case_composed_cov', dict(
            kinds=list(kinds), covs=list(covs), n_ids=2), {}))
    dims = [1, 2] if tier == 'quick' else [1, 2, 3]
    ids = [1, 2] if tier == 'quick' else [1, 2, 3, 4]
    for kind in ps.KINDS:
        for n_dim in dims:
            for n_ids in ids:
                out.append(('value', 'case_value',
                            dict(kind=kind, n_dim=n_dim, n_ids=n_ids),
                            {'max_paths': 1100 if n_ids * n_dim < 12
                             else 5000}))
                for up in (False, True):
                    out.append(('sens', 'case_sens', dict(
                        kind=kind, n_dim=n_dim, n_ids=n_ids, upstream=up),
                        {}))
    comps = list(COMPOSITIONS_Q)
    if tier != 'quick':
        import itertools
        comps = [c for c in itertools.product(ps.KINDS, repeat=2)]
        comps += list(COMPOSITIONS_Q)
    for c in comps:
        for n_ids in ids[-2:]:
            dd = [1 + (i % 2) for i in range(len(c))]
            out.append(('composed', 'case_composed', dict(
                kinds=list(c), dims=dd, n_ids=n_ids), {}))
            if tier != 'quick':
                out.append(('composed', 'case_composed', dict(
                    kinds=list(c), dims=dd[::-1], n_ids=n_ids,
                    upstream=False), {}))
    # a multi-dimensional sub-model *in front of* further sub-models (the
    # column offsets of the reduced form advance by n_dim, not by 1)
    for c, dd in ((('gaussian', 'lognormal'), [2, 1]),
                  (('lognormal_nc', 'pooled', 'gaussian'), [2, 1, 1]),
                  (('gaussian_nc', 'hetero', 'lognormal_nc'), [2, 2, 2]),
                  (('truncgauss', 'gaussian'), [2, 2])):
        out.append(('composed', 'case_composed', dict(
            kinds=list(c), dims=dd, n_ids=2), {}))
    return out


BOUNDS = dict(
    quick='7 model kinds (Gaussian/LogNormal centred and non-centred, '
          'TruncatedGaussian, Pooled, Heterogeneous), n_dim 1..2, n_ids 1..2, '
          '3 parameter layouts, 3 return forms, with/without upstream '
          'sensitivities; 5 compositions + 4 with a multi-dimensional sub-model in front + 4 whose sub-models carry 1-2 covariates each',
    thorough='n_dim 1..3, n_ids 1..4; all 49 ordered pairs of kinds composed '
             '(mixed dimensionalities)',
    outside='larger n_dim / n_ids; sigma = 0 exactly; covariate models (C07); '
            'ReducedPopulationModel (C08)')
TRUSTED = ['z3', 'object-dtype NumPy', 'harness/popspec.py densities',
           'erf axioms: odd, bounded, monotone, erf\' = 2/sqrt(pi) exp(-x^2)']
