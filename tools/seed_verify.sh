#!/bin/sh
# tools/seed_verify.sh <ID> : confirm a sub-agent's seeded change independently in a
# fresh scratch worktree (stable tests pass; demo fails with the change, passes without).
# Reads /tmp/wt_<ID>/_seed/{patch.diff,demo.py}; never touches /repo's working tree.
id=$1
src=/tmp/wt_$id/_seed
vt=/tmp/vt_$id
[ -f $src/patch.diff ] || { echo "no patch for $id"; exit 2; }
git -C /repo worktree remove --force $vt 2>/dev/null
git -C /repo worktree add -q --detach $vt HEAD || exit 2
mkdir -p $vt/_seed && cp $src/* $vt/_seed/ && rm -f $vt/_seed/patch.diff
cd $vt
/venv/bin/python _seed/demo.py > /tmp/vt_$id.orig.out 2>&1; o=$?
git apply $src/patch.diff || { echo "$id: patch does not apply"; git -C /repo worktree remove --force $vt; exit 2; }
/venv/bin/python _seed/demo.py > /tmp/vt_$id.chg.out 2>&1; c=$?
python3 /tmp/seedtools/check_baseline.py $vt > /tmp/vt_$id.base.out 2>&1; b=$?
echo "$id: demo original exit=$o, demo changed exit=$c, baseline exit=$b ($(tail -1 /tmp/vt_$id.base.out | head -c 80))"
git -C /repo worktree remove --force $vt
rm -f /tmp/vt_$id.*.out
[ $o -eq 0 ] && [ $c -ne 0 ] && [ $b -eq 0 ]
