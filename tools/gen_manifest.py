#!/usr/bin/env python3
"""Regenerates /verif/MANIFEST.json from the table below (kept in one place so
that the manifest is always valid and current)."""
import json, os, sys
ROOT = os.path.dirname(os.path.dirname(os.path.abspath(__file__)))
sys.path.insert(0, ROOT)

CLAIMED = {
 'C01': dict(
    text='Bounded symbolic verification of chi.LogLikelihood / LogPosterior over an uninterpreted mechanistic model: for every pair (triple) of per-output time multisets within the bound and all real observations and parameters z3 decides score = sum of documented densities at the matching (output, time), pointwise layout and sum, and evaluability.',
    design='5 C01',
    note='Trusted: z3, object-dtype NumPy, reference densities, mechanistic stub (uninterpreted Y keyed by output and time). ODE solver outside. Bounds: 1-2 outputs exhaustively (<=2 (3) observations per output over 3 (4) distinct times), 3-4 outputs on fixed grids with every triple of error models of unequal parameter counts, outputs without measurements in every position. Also: pointwise values right after a gradient evaluation.',
    technique='symbolic execution of the real code on z3 reals with an uninterpreted solution functional + SMT validity queries over exhaustively enumerated time-grid order types'),
 'C02': dict(
    text='Bounded symbolic verification of chi.HierarchicalLogLikelihood/-Posterior: for every composition of population sub-models within the bound and all real vectors/data/covariates, z3 decides that the value equals sum_i LL_i(psi_i) + population log-density as rebuilt by a specification interpreter that reads only the published names and IDs (pooled, heterogeneous, non-centred, covariate, fixed-parameter semantics from the documentation).',
    design='5 C02',
    note='Trusted: z3, canonical linear abstraction (chisym/canon.py, sound first stage), object-dtype NumPy, chi.LogLikelihood as the per-individual reference (decided by C01), documented naming conventions. Bounds: <=2 (3) sub-models, total dimension 2 (3), 2 (1-3) individuals, <=1 (2) covariates. Also: covariate sub-models acting on an off-diagonal selection of a two-dimensional model, multi-dimensional sub-models in front of others.',
    technique='symbolic execution of the real code on z3 reals + names-driven specification interpreter + SMT validity queries over exhaustively enumerated compositions'),
 'C03': dict(
    text='Bounded symbolic verification that evaluateS1 returns the plain score and, entry by entry, the symbolic derivative of the __call__ term with respect to the flat vector, for LogLikelihood, LogPosterior, HierarchicalLogLikelihood and HierarchicalLogPosterior (uninterpreted mechanistic model and prior with declared partials), in both call orders, with fixed parameters and covariates; outside the support both evaluations are non-finite.',
    design='5 C03',
    note='Trusted: z3, canonical linear abstraction, symbolic differentiator (cross-checked against central differences of the float code per configuration). Bounds as C01/C02.',
    technique='symbolic execution on z3 reals + symbolic differentiation of the value term as oracle + SMT validity queries'),
 'C04': dict(
    text='Bounded symbolic verification: the real error-model classes are executed on symbolic reals and z3 decides, for all real parameters/outputs/observations/sensitivities, that value, pointwise values and sensitivities equal the documented log-densities and their derivatives, that the density is the push-forward of N(0,1) through the documented generative map (normalisation), and that out-of-support inputs score -inf; for n_obs <= 3 (quick) / 5 (thorough) and sensitivity width <= 2 / 3.',
    design='5 C04',
    note='Trusted: z3 on the abstracted QF_NRA queries (log/exp atoms + instantiated lemmas), object-dtype NumPy semantics (cross-checked by a float run per configuration), reference formulas in harness/refs.py. Reals, not floats. Longer vectors are outside the bound.',
    technique='symbolic execution of the real NumPy code on z3 reals (own executor) + SMT validity queries; counter-examples replayed on the float code'),
 'C05': dict(
    text='Bounded symbolic verification of every population model class: value = documented density sum, layout invariance (flat / matrix / per-individual tensor), composed = sum of parts, sensitivities in the separate, flattened and reduced forms = derivative of loglik + <G, psi> with symbolic upstream G, lengths = reported counts; all real parameter values, n_dim <= 2 (3), n_ids <= 2 (3).',
    design='5 C05',
    note='Trusted: z3, object-dtype NumPy, harness/popspec.py densities, erf axioms (odd, bounded, monotone, derivative). sigma>0 assumed. Known finding: matrix layout misread by 3 methods (pinned by stable tests). Also: composed models whose sub-models carry 1-2 covariates each (value, sensitivities, individual parameters on their own covariate columns), per-individual tensor layouts whose rows differ, multi-dimensional sub-models in front of others.',
    technique='symbolic execution of the real NumPy code on z3 reals + SMT validity queries; symbolic differentiation of the value term as gradient oracle'),
 'C06': dict(
    text='Bounded symbolic verification of every sampler against the density its own log-likelihood evaluates: with the RNG stub each sample is a term in fresh standard normals; z3 decides affinity / log-affinity, mean, variance and the full log-density identity in a symbolic measurement, truncation support and law for the truncated model, point-mass behaviour of pooled / heterogeneous models, psi = transform(eta) laws for non-centred models, reported moments; error models, all population kinds, composed, covariate and reduced models; n_samples <= 2 (3), n_dim <= 2 (3).',
    design='5 C06',
    note='Trusted: RNG stub contract (NumPy/SciPy documentation: normal = loc + scale*eps, lognormal = exp(normal), truncnorm standardised bounds), closure of independent Gaussians under affine maps, E exp(a eps) = exp(a^2/2), z3, erf axioms. Replays draw 10^5 real samples. Known finding: ConstantAndMultiplicative sampler variance (pinned by a stable test). Also: several covariate-dependent sub-models in one composition (each samples conditional on its own covariate columns).',
    technique='symbolic execution with a named-stream RNG stub + change-of-variables / moment identities decided by SMT; statistical replay of counter-examples'),
 'C07': dict(
    text='Bounded symbolic verification of CovariatePopulationModel / LinearCovariateModel: for every underlying model, dimension, covariate count and selection within the bound and all real vartheta_0, beta, covariates and individual values, z3 decides that likelihood, individual parameters, samples and sensitivities equal those of the underlying model evaluated per individual at vartheta_i built from the published beta names; zero beta / zero covariates coincide with the underlying model.',
    design='5 C07',
    note='Trusted: z3, underlying population models as reference (C05), RNG stub. Bounds: n_dim <= 2, n_cov <= 2, n_ids <= 2, selections of <= 2 (3) pairs.',
    technique='symbolic execution on z3 reals + names-driven oracle + SMT validity queries over enumerated selections'),
 'C08': dict(
    text='One inductive step from every reachable state of every reducible object (4 reduced error models, reduced population models over plain / composed / covariate models, reduced mechanistic model, LogLikelihood.fix_parameters): all (pre-state, call dictionary) transitions within the bound with symbolic values; the results at the free parameters are decided equal to the unfixed object at the substituted vector, names/counts are the free parameters in order, and the history equals a single net call (also with an evaluation between the calls, and with sensitivities left enabled from before the call: the array returned without re-enabling them must follow the free set of the moment).',
    design='5 C08',
    note='Trusted: z3 / hash-consed term identity (substitution is exact, so most obligations are decided by identity of the symbolic terms), RNG stub, the unfixed objects as reference. Also: chi.PredictiveModel and PopulationPredictiveModel as reducible objects (names, counts, seeded samples), compute_individual_parameters(return_eta=True), dimensions renamed after wrapping, and histories of fix / re-fix / release calls on the ProblemModellingController against the posterior assembled by hand (the case of C14). Outside: SBML-backed ReducedMechanisticModel (C09/C11).',
    technique='symbolic execution on z3 reals; inductive step over (mask, buffer) states x call dictionaries; SMT / term-identity equality'),
 'C12': dict(
    text='Bounded symbolic verification of the five population filters and ComposedPopulationFilter: for all real measurements and simulated measurements within the bound z3 decides score = documented log-density sum with the documented empirical estimators, sensitivities = symbolic derivative in input order, invariance under permuting measured individuals, sort_times with consistently reordered simulations (all time permutations) and splitting over a composed filter; the log-sum-exp maximum branches are explored path by path.',
    design='5 C12',
    note='Trusted: z3, canonical exp/log/sqrt rules of chisym/canon.py (validated numerically on every obligation they decide), object-dtype NumPy reductions. Missing values (NaN-padded measurements: all-missing individual, ragged, sparse, uneven counts per time point, also under every time re-ordering) are carried by a stub of numpy.ma for object payloads (chisym/facade_ma.py) that is cross-checked against the real numpy.ma by the differential float run of every case. Outside: zero-variance simulated samples, arrays larger than the bound. Also: composed filters over 3-4 sub-filters (flat = nested).',
    technique='symbolic execution on z3 reals with path exploration of np.max + canonical normal form / SMT validity queries; symbolic differentiation as gradient oracle'),
 'C13': dict(
    text='Bounded symbolic verification of chi.PopulationFilterLogPosterior over the uninterpreted mechanistic model and prior: for every population composition within the bound, fixed/free sigma, additive/log-scale noise and unsorted time vectors, z3 decides that value minus (log-prior + population log-density + filter log-likelihood of Y(psi_s) + sigma*eps at the sorted times - sum eps^2/2), rebuilt from the published names and IDs only, has zero derivative in every entry, and that evaluateS1 returns the symbolic derivative of the value entry by entry.',
    design='5 C13',
    note='Trusted: z3, canonical stage, the population filters as reference (C12), documented naming conventions. Bounds: 2 simulated individuals (4 for the mixture filter), <=2 observables, <=2 times, compositions of <=2 (3) sub-models. Known finding: covariate model around a pooled dimension. Also: two observables at two unsorted time points; composed filters with three unsorted time points.',
    technique='symbolic execution on z3 reals + names-driven specification interpreter + symbolic differentiation + SMT validity queries'),
 'C09': dict(
    text='Bounded symbolic verification of the binding chi owns between the flat parameter vector and the ODE solver: over a stub of myokit.Simulation that returns the uninterpreted solution functional of exactly what it was handed, simulate(p, t) and the sensitivity array are decided equal, entry by entry, to the functional (and its declared partials) with p_i bound to the variable behind the i-th published name, for generated SBML models with every declaration order of 1..3 states, constants, intermediates, derived constants, output selections, renamings, copies and reduced models (incl. swapping the fixed parameter / releasing all with sensitivities left on), and for the 4 library models whose right-hand sides are also decided equal to the documented equations.',
    design='5 C09',
    note='Trusted: real myokit model classes / SBML importer; the Simulation stub contract (result depends exactly on the state vector in solver order, the named constants, the protocol and the sensitivity request); z3. The integrator (sundials) is absent in this sandbox and outside the claim.',
    technique='symbolic execution over an uninterpreted-solver stub + term/SMT equality over enumerated generated SBML programs; expression-tree translation for library equations'),
 'C10': dict(
    text='Bounded symbolic verification of dosing: set_dosing_regimen with symbolic dose/start/duration/period and every num hands the simulator the documented event (level*duration = dose); the model surgery of set_administration is decided on the myokit expression trees (dose rate on the dosed amount, first-order depot) for library and generated models; cumulative input between infusions = sum of scheduled doses under myokit event semantics; PredictiveModel.get_dosing_regimen on symbolic start, period, duration, level and final_time lists exactly the events applied up to final_time (floor forked, <= 4 doses); regimens derived from a dataset hold exactly each individual\'s dose rows (start = time, rate*duration = amount, 0.01 bolus when the duration is missing) for every pair (triple) of row kinds, row orders and ID types.',
    design='5 C10',
    note='Trusted: real myokit model/expression classes, protocol stub = documented myokit.Protocol event semantics, z3. Dataset-derived regimens: ProblemModellingController.set_data / get_dosing_regimens on pandas frames with symbolic dose amounts, times and durations (pd.to_numeric facade). Outside: the integrator. Also: re-administration into another state of the same compartment.',
    technique='symbolic execution over the myokit stub with symbolic protocol fields + SMT decisions; expression-tree translation of the modified right-hand sides'),
 'C11': dict(
    text='Bounded exhaustive histories with symbolic data: every sequence of <= 2 (3) configuration calls (administration direct/indirect, two regimens with symbolic doses, output selections, renamings, sensitivities on/off, copy) on a PKPDModel over the myokit stub; the observables (names, counts, outputs, reported regimen, and simulate(p,t) as a term containing the protocol on the live simulator and the sensitivity request) are decided equal to a fresh model with only the net configuration; reported regimen = protocol on the live simulator; copies equal the original at copy time and stay unaffected; the same for histories of fix / re-fix / release / swap-in-one-call / release-all / sensitivities / copy on a ReducedMechanisticModel over the dosed model.',
    design='5 C11',
    note='Trusted: myokit stub contract; the reference applies the same chi calls on a fresh model in canonical order (administration, regimen, outputs, renaming, sensitivities); documented resets (set_outputs / set_administration reset sensitivities; an output rename lives with the selected output). Known finding: renames lost when an administration rebuilds the name tables. Also: all 3-step output selection / renaming histories.',
    technique='exhaustive bounded call histories executed symbolically over an uninterpreted-solver stub; term/SMT equality of observables'),
 'C14': dict(
    text='Bounded symbolic verification of chi.ProblemModellingController: set_data (type cleaning, observable / covariate maps, row selection, regimen and covariate extraction), set_population_model, fix_parameters, set_log_prior and get_log_posterior are executed on pandas frames with concrete structure (IDs and their type, observables, missing cells, row order, unrelated rows and columns) and symbolic payload (values, dose amounts, durations, covariates); value, IDs, gradient of the returned posterior at a symbolic vector are decided equal to the posterior assembled by hand from the ground truth (one LogLikelihood per individual over a model copy with that individual\'s own protocol, measurements and times; population model with that individual\'s covariates in ID order), for 7 renderings of every dataset.',
    design='5 C14',
    note='Trusted: real pandas on object columns; pd.to_numeric facade (passes symbolic columns through after checking the remaining cells with the real to_numeric); myokit stub (the solution symbol is keyed by the protocol events, so a regimen on the wrong individual is a different term); chi likelihood / posterior classes as the hand-assembly vocabulary (decided by C01-C03). Bounds: 1-3 individuals, 1-2 outputs, 0-3 measurements per output, <= 2 dose rows per individual, 7 population models, <= 2 covariates; measurement and dose times are concrete. Also: replicate measurements, the output-observable map in reversed key order, covariates as a separate block of rows, several population models in a row on one controller.',
    technique='symbolic execution of the real code on pandas object columns + term/SMT equality against a hand-assembled posterior, over enumerated dataset renderings'),
 'C19': dict(
    text='Bounded exhaustive evaluation sequences with symbolic points (sequential clause): all sequences of 2 (3) evaluations (value, pointwise, value+sensitivities at two points) on one object or interleaved over two sibling objects built from the same user models, for 9 kinds of evaluable objects incl. dosed PKPD likelihoods over the myokit stub and objects with fixed parameters; each result term is decided equal to the same single evaluation on a fresh object and consistent across operations (S1 score = value, sum pointwise = value), inputs are compared cell by cell with a snapshot, mutations of the user models after construction leave the derived objects unchanged, and evaluations before a reconfiguration (swap of the fixed mechanistic parameter) leave nothing behind that shows afterwards.',
    design='5 C19',
    note='Trusted: myokit stub (protocol and sensitivity request are part of the solution term, so a rebuilt simulator that lost them is visible), term identity / z3. Outside: forked-worker evaluation (pints.ParallelEvaluator) and data frames. Also: seeded sampling from a PredictiveModel with the arrays of the caller as watched inputs; evaluate - reconfigure - evaluate sequences (also on a dosed likelihood); gradients returned earlier must still hold what they held when returned.',
    technique='exhaustive bounded evaluation sequences executed symbolically; term/SMT equality against fresh-object evaluations'),
 'C15': dict(
    text='Bounded symbolic verification of the predictive models over the RNG stub and the uninterpreted mechanistic model: every table value is a term; row by row it is decided that the value labelled (ID, time, observable) is the error model around the prediction for that output and time at that sample\'s parameters, that times ascend, that the parameters (read off the arguments of the solution symbol) are the given vector / a population draw with the documented law after the model\'s transform (n_samples equal to and different from the configured n_ids, covariates) / one joint (chain, draw) row of the selected individual / one prior draw, and that averaged models label samples 1..n model by model with the normalised weights.',
    design='5 C15',
    note='Trusted: RNG stub contract, pandas/xarray object columns, z3. Known finding: pooled dimension with n_samples < configured n_ids. Bounds: <=2 outputs, <=3 times, <=2 samples, <=2 chains x 2 (3) draws x 2 individuals, 2 averaged models. Also: PAM with 3-4 candidate models; the samples per model must match the indices the draws selected on the path.',
    technique='symbolic execution with RNG stub; term inspection of the solution symbol + SMT decisions of the per-row law'),
 'C16': dict(
    text='Symbolic verification of seeding over a named-stream RNG stub: every sampling entry point (4 error models, 12 population models incl. composed/covariate/reduced, PredictiveModel, PopulationPredictiveModel, Posterior/Prior/PAM predictive models, the three sample_initial_parameters) is run twice with the same integer seed under different global generator states and an interleaved foreign draw and the result terms must coincide; different seeds must give different stream variables; distinct noise carriers must depend on disjoint stream variables; a Generator passed as seed must be advanced.',
    design='5 C16',
    note='Trusted: RNG stub = NumPy seeding semantics (default_rng(int) restarts a stream, default_rng(Generator) continues it, np.random.seed resets the global stream); pints priors modelled as drawing from the global generator. Syntactic disjointness of stream variables implies independence. Also: the rows of sample_initial_parameters and PAM samples from different candidate models carry independent noise.',
    technique='symbolic execution with a named-stream RNG stub; term identity / SMT equality of two runs; forks over random indices'),
 'C18': dict(
    text='Bounded symbolic verification of inference I/O: sample_initial_parameters of hierarchical and filter posteriors over the C02/C13 compositions with a prior stub and the RNG stub (shape, population-level entries = the prior draw of the row, individual-level entries have the population law at the row\'s own population values, finite population log-density at the initial point, construction never raises); SamplingController._format_chains on a symbolic chain array (every name once, population-level = c[:,:,k], individual-level = c[:,:,k(name, individual)]); read-back through compute_pointwise_loglikelihood (individual posteriors) and PosteriorPredictiveModel (joint raw row of the selected individual).',
    design='5 C18',
    note='Trusted: RNG stub, prior stub, xarray object arrays, z3. OptimisationController.run over a stub optimiser returning symbolic estimates / scores: every row pairs estimate, name, ID, score, run. Outside: running the optimisers / samplers themselves, arviz conversion; hierarchical pointwise evaluation is NotImplemented in chi. Also: chains of filter posteriors (population-level entries first), unsorted / many individual labels, read-back through chained / swapped parameter maps, reproducibility of initial points from the seed (incl. 0) under different global generator states.',
    technique='symbolic execution with RNG/prior stubs + term inspection + SMT decisions of per-entry laws'),
 'C17': dict(
    text='CrossHair (symbolic execution of Python with z3) on contract functions generated per run: the bodies build the real chi objects from symbolic small integers (sub-model kinds, dimensions, numbers of individuals before/after set_n_ids, fixed-parameter masks, covariate selections, numbers of outputs / times / simulated individuals) and require n_parameters = number of names = length of IDs = accepted vector length = gradient length, IDs marking exactly the individual-level entries, distinct names with IDs, sub-model names in documented order; "Confirmed over all paths" for every condition is the exhaustive verdict for the stated ranges; each body has a reachability twin.',
    design='5 C17',
    note='Trusted: CrossHair 0.0.110 path exhaustion ("Confirmed over all paths") + z3; integers are realised by branching so that one path = one configuration and the body then runs untraced. Ranges: kinds 7, dims 1-2, n_ids 1-2 (3), 2 (3) sub-models, masks < 8 (32), selections < 16. Also: rename / reset-to-default names, gradient lengths outside the support, error models alone, one error-model instance shared by several outputs, multi-dimensional special sub-models in filter posteriors.',
    technique='CrossHair symbolic execution over small symbolic integers with generated pre/post contracts'),
}

CLAIMED['C20'] = dict(
    text='Bounded symbolic verification of the four time-series figure classes on pandas frames with concrete structure and symbolic times, values, doses, durations and predictive samples: add_data / add_simulation traces are compared cell by cell with the ground truth (one marker trace per individual of the chosen observable with exactly its points in row order, dose panels with exactly its dose rows, the caller\'s frame unchanged); for add_prediction with bulk probabilities pandas\' rank / max / min compare symbolic samples, so each explorer path is one (weak) ordering of the samples of every time point, and on each path it is decided that both limits are sample values of that time point, that at least the requested fraction of its samples lies between them, and that bands are nested.',
    design='5 C20',
    note='Trusted: real pandas on object columns (rank, masks, max/min call the Python comparison of the cells, which is the explorer\'s decision point), plotly keeping object arrays as given, z3. Bounds: 3 individuals x 6 row layouts, 2-4 samples per time point in every weak ordering, 5 (6-7) distinct samples in every strict ordering, 8-20 (30) samples in 4 fixed strict orderings. Outside: residual and other figure classes, rendering beyond the trace arrays. Also: dose rows carrying measurements, unsorted time points, repeated index labels, samples without value, probabilities differing in the third decimal.',
    technique='symbolic execution of the real code on pandas/plotly object arrays; path per sample ordering; term identity + SMT decisions of the enclosure and nesting conditions')

NOT_APPLICABLE = {
}
PENDING = 'check not built yet in this round (planned, see DESIGN.md section 5)'

def main():
    props = [json.loads(l) for l in open(os.path.join(ROOT, 'properties.jsonl'))]
    checks = []
    na = []
    for p in props:
        pid = p['id']
        if pid in CLAIMED:
            c = CLAIMED[pid]
            checks.append(dict(
                property_id=pid,
                quick_cmd='./check %s --tier quick' % pid,
                thorough_cmd='./check %s --tier thorough' % pid,
                evidence_file='/verif/evidence/%s.json' % pid,
                replay_cmd_template='./check %s --replay {path}' % pid,
                engine='chisym',
                level_claimed=dict(category='other', text=c['text'], design_ref=c['design']),
                level_note=c['note'] + ' The bounds as built are in the '
                'evidence file (bounds.quick / thorough / outside) and in '
                'DESIGN.md section 5; the seeded changes that shaped them '
                '(14 rounds) in section 9.',
                technique=c['technique']))
        else:
            na.append(dict(property_id=pid, reason=NOT_APPLICABLE.get(pid, PENDING)))
    man = dict(
        version=1,
        setup_cmd='./setup.sh',
        hooks=dict(guard='CHI_VERIF', enable='no hooks: checks rebind module globals of chi inside the checking process; CHI_VERIF is reserved and unused',
                   baseline_off_cmd='cd /repo && /venv/bin/python -m pytest -ra -q -p no:cacheprovider --timeout=900 --continue-on-collection-errors',
                   source_commits=[], add_only=True),
        engines=[dict(name='chisym', path='/verif/chisym', serves_properties=sorted(CLAIMED),
                      kind_free_text='re-execution symbolic executor for NumPy object arrays of z3 reals + SMT decision (z3 5.1), CrossHair for C17')],
        checks=checks,
        notes='All checks import chi from /repo working tree; encodings are regenerated on every run. Exit 3 = harness error.',
        not_applicable=na)
    json.dump(man, open(os.path.join(ROOT, 'MANIFEST.json'), 'w'), indent=1)
    try:
        import jsonschema
        jsonschema.validate(man, json.load(open('/root/.vp/MANIFEST.schema.json')))
        for c in checks:
            ef = c['evidence_file']
            if os.path.exists(ef):
                jsonschema.validate(json.load(open(ef)), json.load(open('/root/.vp/EVIDENCE.schema.json')))
        print('manifest valid;', len(checks), 'claimed,', len(na), 'not applicable')
    except ImportError:
        print('jsonschema missing, not validated')
main()
