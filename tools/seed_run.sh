#!/bin/sh
# tools/seed_run.sh <ID> [check ids...] : apply /verif/seeded/<ID>/patch.diff to /repo, run the
# given checks (default: the property's own, quick tier), undo the patch straight afterwards.
id=$1; shift
checks=${@:-$id}
cd /repo && git apply /verif/seeded/$id/patch.diff || { echo "$id: patch does not apply"; exit 2; }
for c in $checks; do
  cd /verif && ./check $c --no-evidence ${TIER:+--tier $TIER} > /tmp/seedrun_${id}_$c.out 2>&1; rc=$?
  echo "seed $id -> check $c ${TIER:-quick}: exit=$rc; $(grep -c '^VIOLATION' /tmp/seedrun_${id}_$c.out) VIOLATION lines; $(tail -1 /tmp/seedrun_${id}_$c.out | cut -c1-160)"
done
cd /repo && git checkout -- . && git status --short | head -3
