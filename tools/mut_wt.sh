#!/bin/sh
# tools/mut_wt.sh <file-in-repo> <sed-expr> <check args...> : like mut.sh, but the mutation is
# applied in a scratch worktree that shadows /repo through PYTHONPATH (nothing in /repo changes)
f=$1; e=$2; shift 2
wt=/tmp/mw_$$
git -C /repo worktree add -q --detach $wt HEAD || exit 2
( cd $wt && sed -i "$e" "$f" && git diff --stat | tail -1 )
cd /verif && PYTHONPATH=$wt ./check "$@" --no-evidence > /tmp/mut_$$.out 2>&1; rc=$?
grep -v "^VIOLATION" /tmp/mut_$$.out | tail -3 | cut -c1-400; echo "exit=$rc"
rm -f /tmp/mut_$$.out
git -C /repo worktree remove --force $wt
