#!/bin/sh
# tools/seed_matrix.sh : every seeded change x every quick check, each in the seed's own scratch
# worktree (PYTHONPATH override), so /repo is not touched.  Output: /verif/seeded/matrix.txt
out=/verif/seeded/matrix.txt
: > $out
for id in C01 C02 C03 C04 C05 C06 C07 C08 C09 C10 C11 C12 C13 C15 C16 C17 C18 C19; do
  wt=/tmp/mx_$id
  git -C /repo worktree remove --force $wt 2>/dev/null
  git -C /repo worktree add -q --detach $wt HEAD
  git -C $wt apply /verif/seeded/$id/patch.diff
  line="$id:"
  for c in C01 C02 C03 C04 C05 C06 C07 C08 C09 C10 C11 C12 C13 C15 C16 C17 C18 C19; do
    cd /verif && PYTHONPATH=$wt ./check $c --no-evidence > /tmp/mx_${id}_$c.out 2>&1; rc=$?
    [ $rc -eq 1 ] && line="$line $c"
    [ $rc -eq 3 ] && line="$line ($c:harness-error)"
    rm -f /tmp/mx_${id}_$c.out
  done
  echo "$line" >> $out
  git -C /repo worktree remove --force $wt
done
echo done >> $out
