#!/bin/sh
# tools/seed_matrix.sh [seed dirs...] : every seeded change x every quick check whose property is
# anchored in a file the change touches.  Runs a *committed snapshot* of /verif (so edits in
# progress cannot leak in) against a scratch worktree of /repo carrying the change (PYTHONPATH
# override; /repo itself is not touched).  Output: /verif/seeded/matrix.txt
snap=/tmp/verif_snap_$$
rm -rf $snap; mkdir -p $snap
git -C /verif archive HEAD | tar -x -C $snap
ln -s /verif/.venv $snap/.venv
out=${MATRIX_OUT:-/verif/seeded/matrix.txt}
: > $out
seeds=${@:-$(cd /verif/seeded && ls -d */ | tr -d /)}
for sd in $seeds; do
  [ -f /verif/seeded/$sd/patch.diff ] || continue
  wt=/tmp/mx_$sd
  git -C /repo worktree remove --force $wt 2>/dev/null
  git -C /repo worktree add -q --detach $wt HEAD
  git -C $wt apply /verif/seeded/$sd/patch.diff || { echo "$sd: patch does not apply" >> $out; git -C /repo worktree remove --force $wt; continue; }
  checks=$(python3 - "$sd" <<'PY'
import json, re, sys, fnmatch
sd = sys.argv[1]
files = set(re.findall(r'^diff --git a/(\S+)', open('/verif/seeded/%s/patch.diff' % sd).read(), re.M))
own = json.load(open('/verif/seeded/%s/meta.json' % sd))['property']
out = [own]
for l in open('/verif/properties.jsonl'):
    p = json.loads(l)
    if p['id'] != own and any(fnmatch.fnmatch(f, a) for f in files for a in p['anchors']['files']):
        out.append(p['id'])
print(' '.join(out))
PY
)
  line="$sd [$checks]:"
  for c in $checks; do
    ( cd $snap && PYTHONPATH=$wt ./check $c --no-evidence > /tmp/mx_${sd}_$c.out 2>&1 ); rc=$?
    [ $rc -eq 1 ] && line="$line $c"
    [ $rc -eq 3 ] && line="$line ($c:exit3)"
    rm -f /tmp/mx_${sd}_$c.out
  done
  echo "$line" >> $out
  git -C /repo worktree remove --force $wt
done
rm -rf $snap
echo done >> $out
