#!/bin/sh
# tools/seed_run_wt.sh <seed dir name> [check ids...] : like seed_run.sh but without touching
# /repo: the change is applied in a scratch worktree that shadows /repo through PYTHONPATH
# (used while a background run needs /repo unchanged).  Default check: the seed's property.
sd=$1; shift
prop=${sd%%-*}
checks=${@:-$prop}
wt=/tmp/sr_$sd
git -C /repo worktree remove --force $wt 2>/dev/null
git -C /repo worktree add -q --detach $wt HEAD || exit 2
git -C $wt apply /verif/seeded/$sd/patch.diff || { echo "$sd: patch does not apply"; git -C /repo worktree remove --force $wt; exit 2; }
for c in $checks; do
  cd /verif && PYTHONPATH=$wt ./check $c --no-evidence ${TIER:+--tier $TIER} > /tmp/seedrun_${sd}_$c.out 2>&1; rc=$?
  echo "seed $sd -> check $c ${TIER:-quick}: exit=$rc; $(grep -c '^VIOLATION' /tmp/seedrun_${sd}_$c.out) VIOLATION lines; $(tail -1 /tmp/seedrun_${sd}_$c.out | cut -c1-160)"
done
git -C /repo worktree remove --force $wt
