#!/bin/sh
# tools/runall.sh [tier] : every check once, exit code and summary line (never trust a tail alone)
tier=${1:-quick}
cd /verif
for c in C01 C02 C03 C04 C05 C06 C07 C08 C09 C10 C11 C12 C13 C14 C15 C16 C17 C18 C19 C20; do
  ./check $c --tier $tier ${NOEV:+--no-evidence} > /tmp/runall_$c.out 2>&1; rc=$?
  echo "$c rc=$rc $(grep -c '^HARNESS-ERROR' /tmp/runall_$c.out) harness-errors $(grep -c '^INCONCLUSIVE' /tmp/runall_$c.out) inconclusive | $(tail -1 /tmp/runall_$c.out | cut -c1-150)"
  rm -f /tmp/runall_$c.out
done
