#!/bin/sh
# tools/mut.sh <file-in-repo> <sed-expr> <check args...>  : apply a mutation, run check, revert
f=$1; e=$2; shift 2
cd /repo && sed -i "$e" "$f" && git diff --stat | tail -1
cd /verif && ./check "$@" --no-evidence > /tmp/mut.out 2>&1; rc=$?; grep -v "^VIOLATION" /tmp/mut.out | tail -4 | cut -c1-300; echo "exit=$rc"
cd /repo && git checkout -- . 
