#!/bin/sh
# tools/mut.sh <file-in-repo> <sed-expr> <check args...>  : apply a mutation, run check, revert
f=$1; e=$2; shift 2
cd /repo && sed -i "$e" "$f" && git diff --stat | tail -1
cd /verif && ./check "$@" --no-evidence | tail -8; echo "exit=$?"
cd /repo && git checkout -- . 
