#!/usr/bin/env python3
"""Writes /verif/seeded/README.md from the meta.json files and seeded/results.json."""
import json, os
ROOT = os.path.dirname(os.path.dirname(os.path.abspath(__file__)))
S = os.path.join(ROOT, 'seeded')
res = json.load(open(os.path.join(S, 'results.json')))
rows = []
for d in sorted(os.listdir(S)):
    m = os.path.join(S, d, 'meta.json')
    if not os.path.exists(m):
        continue
    j = json.load(open(m))
    r = res.get(d, ['not run', ''])
    rows.append((j.get('round', 1), d, j['property'], j['change'], j['needs_to_manifest'], r[0], r[1]))
rows.sort()
out = ['# Seeded changes', '',
       'Each directory holds one change to DavAug/chi produced by an independent sub-agent that was',
       'given only the property text and a scratch worktree (`patch.diff`, `demo.py`, `notes.md`,',
       '`meta.json`).  Every change was confirmed independently (`tools/seed_verify.sh`: the 346 stable',
       'tests pass with it, the demo exits 0 without and non-zero with it) and then run against the',
       "property's own quick check (`tools/seed_run.sh` / `tools/seed_run_wt.sh`).  \"caught\" = exit 1",
       'with replayable VIOLATION lines.  Where a check missed a change it was strengthened (last',
       'column: what was added) and re-run; the strengthened checks pass on the unchanged tree.', '',
       '| round | seed | property | change | needs | own check | what was added |', '|---|---|---|---|---|---|---|']
for r in rows:
    out.append('| %d | `%s` | %s | %s | %s | %s | %s |' % r)
n = len(rows)
c0 = sum(1 for r in rows if r[5] == 'caught')
c1 = sum(1 for r in rows if r[5].startswith('caught after'))
out += ['', '%d seeds: %d caught as found, %d caught after strengthening the check, %d not caught.' % (
    n, c0, c1, n - c0 - c1), '']
lines = []
for fn in ('matrix_rounds1-4.txt', 'matrix_rounds5-7.txt', 'matrix_round8.txt',
           'matrix_round12.txt', 'matrix_round13.txt'):
    mx = os.path.join(S, fn)
    if os.path.exists(mx):
        lines += ['# ' + fn] + [l for l in open(mx).read().splitlines() if l != 'done']
if lines:
    out += ['## Seeds x quick checks anchored in the touched files', '',
            'From committed snapshots of /verif (`tools/seed_matrix.sh`; the snapshot of rounds 1-4 is older than',
            'the last strengthenings).  Format: `seed [checks run]: checks that exit 1`; `(Cxx:exit3)` = harness',
            'error under that seed (e.g. the change uses a NumPy call the executor does not model).  A seed may',
            'legitimately break several properties.', '', '```'] + lines + ['```', '']
open(os.path.join(S, 'README.md'), 'w').write('\n'.join(out))
print('\n'.join(out[-6:]))
