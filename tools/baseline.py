#!/usr/bin/env python3
"""Runs the pinned test command and compares with BASELINE.json stable_pass."""
import json, subprocess, sys, tempfile, os, xml.etree.ElementTree as ET
b = json.load(open('/root/.vp/BASELINE.json'))
out = tempfile.mktemp(suffix='.xml', dir='/tmp')
cmd = b['cmd'].replace('<file>', out)
env = dict(os.environ); env.pop('CHI_VERIF', None)
subprocess.run(cmd, shell=True, stdout=subprocess.DEVNULL, stderr=subprocess.DEVNULL, env=env)
passed = set()
for tc in ET.parse(out).getroot().iter('testcase'):
    if not any(ch.tag in ('failure', 'error', 'skipped') for ch in tc):
        passed.add('%s::%s' % (tc.get('classname'), tc.get('name')))
os.remove(out)
want = set(b['stable_pass'])
missing = sorted(want - passed)
print('stable_pass: %d, passed now: %d, missing: %d' % (len(want), len(passed & want), len(missing)))
for m in missing[:20]: print('  MISSING', m)
sys.exit(1 if missing else 0)
