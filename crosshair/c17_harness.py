"""
Bodies of the CrossHair conditions for C17.  harness/c17.py generates, on
every run, one contract function per value of the leading argument (with the
ranges of the tier as ``pre:`` lines and ``post: _ == True``) plus one
reachability twin per body (``post: _ == False`` must be refuted).  The
integer arguments are symbolic for CrossHair; the first NumPy call realises
them, so every explored path is one configuration and "Confirmed over all
paths" is the exhaustive verdict for the stated ranges.
"""
import numpy as np

import chi

KINDS = 7

try:
    from crosshair.tracers import NoTracing
except Exception:          # plain Python (replay, concrete sweeps)
    class NoTracing(object):
        def __enter__(self):
            return self

        def __exit__(self, *a):
            return False


def _c(x, lo=0, hi=64):
    """realise a symbolic integer by branching on its value: the returned
    object is an ordinary Python int"""
    for v in range(lo, hi + 1):
        if x == v:
            return v
    raise ValueError('argument outside the realisation range')


def concrete(f):
    """decorator: realise every integer argument (one CrossHair path per
    configuration), then run the body untraced at native speed"""
    def g(*args):
        vals = [_c(a) for a in args]
        with NoTracing():
            return f(*vals)
    g.__name__ = f.__name__
    g.__doc__ = f.__doc__
    g.__wrapped__ = f
    return g


def _make(kind: int, n_dim: int, n_ids: int):
    if kind == 0:
        return chi.GaussianModel(n_dim=n_dim)
    if kind == 1:
        return chi.GaussianModel(n_dim=n_dim, centered=False)
    if kind == 2:
        return chi.LogNormalModel(n_dim=n_dim)
    if kind == 3:
        return chi.LogNormalModel(n_dim=n_dim, centered=False)
    if kind == 4:
        return chi.TruncatedGaussianModel(n_dim=n_dim)
    if kind == 5:
        return chi.PooledModel(n_dim=n_dim)
    return chi.HeterogeneousModel(n_dim=n_dim, n_ids=n_ids)


class Toy(chi.MechanisticModel):
    """concrete smooth model with exact sensitivities"""

    def __init__(self, n_params: int, n_outputs: int):
        super().__init__()
        self._p = ['p%d' % i for i in range(n_params)]
        self._o = ['out%d' % i for i in range(n_outputs)]
        self._sens = False
        self._idx = None

    def enable_sensitivities(self, enabled, parameter_names=None):
        self._sens = bool(enabled)
        self._idx = None
        if enabled and parameter_names is not None:
            self._idx = [self._p.index(str(n)) for n in parameter_names]

    def has_sensitivities(self):
        return self._sens

    def n_outputs(self):
        return len(self._o)

    def n_parameters(self):
        return len(self._p)

    def outputs(self):
        return list(self._o)

    def parameters(self):
        return list(self._p)

    def simulate(self, parameters, times):
        p = np.asarray(parameters, dtype=float)
        t = np.asarray(times, dtype=float)
        out = np.empty((len(self._o), len(t)))
        sens = np.empty((len(t), len(self._o), len(p)))
        for o in range(len(self._o)):
            out[o] = 2.0 + o + np.sum(p ** 2) * (1 + t)
            for j in range(len(p)):
                sens[:, o, j] = 2 * p[j] * (1 + t)
        if self._sens:
            if self._idx is not None:
                sens = sens[:, :, self._idx]
            return out, sens
        return out


def _valid_point(models, n_ids):
    """population parameters and consistent individual values"""
    theta, cols = [], []
    for m in models:
        nd = m.n_dim()
        name = type(m).__name__
        if name == 'PooledModel':
            th = [0.7 + 0.1 * d for d in range(nd)]
            col = [[th[d] for d in range(nd)] for _ in range(n_ids)]
        elif name == 'HeterogeneousModel':
            th = [0.5 + 0.1 * (i * nd + d) for i in range(n_ids)
                  for d in range(nd)]
            col = [[th[i * nd + d] for d in range(nd)]
                   for i in range(n_ids)]
        else:
            th = [0.3 + 0.1 * d for d in range(nd)] + \
                [0.9 + 0.1 * d for d in range(nd)]
            col = [[0.6 + 0.05 * i + 0.01 * d for d in range(nd)]
                   for i in range(n_ids)]
        theta += th
        cols.append(col)
    obs = [[x for c in cols for x in c[i]] for i in range(n_ids)]
    return np.array(theta), np.array(obs)


def _names_stable(m):
    """name queries (with either flag, repeated) are pure: counts agree
    before and after"""
    n = m.n_parameters()
    a = m.get_parameter_names()
    b = m.get_parameter_names(True)
    c = m.get_parameter_names(True)
    d = m.get_parameter_names()
    return len(a) == len(b) == len(c) == len(d) == n == m.n_parameters() \
        and a == d and b == c


def _composition(k1, k2, k3, d1, d2, d3, n_units, n_ids):
    spec = [(k1, d1), (k2, d2), (k3, d3)][:n_units]
    models = [_make(k, d, n_ids) for k, d in spec]
    for m in models:
        m.set_n_ids(n_ids)
    return models


@concrete
def check_population(k1: int, k2: int, k3: int, d1: int, d2: int, d3: int,
                     n_units: int, n_ids: int, n_ids2: int) -> bool:
    models = _composition(k1, k2, k3, d1, d2, d3, n_units, n_ids)
    m = chi.ComposedPopulationModel(models)
    m.set_n_ids(n_ids)
    ok = True
    for n in (n_ids, n_ids2):
        m.set_n_ids(n)
        names = m.get_parameter_names()
        ok = ok and m.n_parameters() == len(names)
        ok = ok and names == [x for s in models
                              for x in s.get_parameter_names()]
        ok = ok and len(set(names)) == len(names)
        ok = ok and m.n_dim() == sum(s.n_dim() for s in models)
        nb, nt = m.n_hierarchical_parameters(n)
        ok = ok and nt == m.n_parameters()
        ok = ok and nb == n * m.n_hierarchical_dim()
        theta, obs = _valid_point(models, n)
        ok = ok and len(theta) == m.n_parameters()
        score, dpsi, dth = m.compute_sensitivities(theta, obs)
        ok = ok and dpsi.shape == (n, m.n_dim())
        ok = ok and dth.shape == (m.n_parameters(),)
        score, ds = m.compute_sensitivities(theta, obs, reduce=True)
        ok = ok and ds.shape == (nb + nt,)
    ok = ok and _names_stable(m)
    # renaming and resetting to the defaults (reconfiguration): the default
    # names come back, in the order of the parameter vector
    names0 = m.get_parameter_names()
    bare0 = m.get_parameter_names(True)
    custom = ['q%d' % i for i in range(m.n_parameters())]
    m.set_parameter_names(custom)
    ok = ok and m.get_parameter_names(True) == custom
    ok = ok and len(m.get_parameter_names()) == m.n_parameters()
    m.set_parameter_names(None)
    ok = ok and m.get_parameter_names() == names0
    ok = ok and m.get_parameter_names(True) == bare0
    for sub in models:
        sub.set_parameter_names(None)
    ok = ok and m.get_parameter_names() == names0
    ok = ok and len(set(names0)) == len(names0) == m.n_parameters()
    dn = ['d%d' % i for i in range(m.n_dim())]
    m.set_dim_names(dn)
    ok = ok and m.get_dim_names() == dn
    ok = ok and len(m.get_parameter_names()) == m.n_parameters()
    return bool(ok)


@concrete
def check_hierarchical(k1: int, k2: int, d1: int, n_ids: int,
                       fix: int) -> bool:
    models = [_make(k1, d1, n_ids), _make(k2, 1, n_ids)]
    for m in models:
        m.set_n_ids(n_ids)
    pop = chi.ComposedPopulationModel(models)
    n_dim = d1 + 1
    mech = Toy(n_dim - 1, 1)
    lls = []
    for i in range(n_ids):
        lls.append(chi.LogLikelihood(
            mech, chi.GaussianErrorModel(), [1.0 + i, 2.0], [1.0, 2.0 + i]))
    pop.set_dim_names(lls[0].get_parameter_names())
    if fix:
        pop = chi.ReducedPopulationModel(pop)
        nm = pop.get_parameter_names()
        pop.fix_parameters({nm[(fix - 1) % len(nm)]: 0.8})
    ok0 = _names_stable(pop)
    hl = chi.HierarchicalLogLikelihood(lls, pop)
    n = hl.n_parameters()
    names = hl.get_parameter_names()
    ids = hl.get_id()
    ok = ok0 and len(names) == n and len(ids) == n
    n_top = hl.n_parameters(exclude_bottom_level=True)
    ok = ok and n_top == pop.n_parameters()
    ok = ok and all(i is not None for i in ids[:n - n_top])
    ok = ok and all(i is None for i in ids[n - n_top:])
    full = hl.get_parameter_names(include_ids=True)
    ok = ok and len(set(full)) == n
    ok = ok and names[n - n_top:] == pop.get_parameter_names()
    x = np.full(n, 0.8)
    score, sens = hl.evaluateS1(x)
    ok = ok and np.shape(sens) == (n,)
    post = chi.HierarchicalLogPosterior(
        hl, __import__('pints').ComposedLogPrior(
            *[__import__('pints').UniformLogPrior(0, 5)] * n_top))
    ok = ok and post.n_parameters() == n
    ok = ok and len(post.get_parameter_names()) == n
    s2, g2 = post.evaluateS1(x)
    ok = ok and np.shape(g2) == (n,)
    # outside the support of the prior (population-level entries above its
    # upper bound): the gradient still has one entry per parameter
    xo = x.copy()
    xo[n - n_top:] = 7.0
    s3, g3 = post.evaluateS1(xo)
    ok = ok and np.shape(g3) == (n,)
    ok = ok and len(post.get_id()) == n
    return bool(ok)


def _error_model(k: int):
    return [chi.GaussianErrorModel, chi.MultiplicativeGaussianErrorModel,
            chi.ConstantAndMultiplicativeGaussianErrorModel,
            chi.LogNormalErrorModel][k]()


@concrete
def check_likelihood(e1: int, e2: int, n_out: int, n_mech: int,
                     fixmask: int) -> bool:
    mech = Toy(n_mech, n_out)
    ems = [_error_model(e1), _error_model(e2)][:n_out]
    obs = [[1.5, 2.5], [2.0]][:n_out]
    times = [[1.0, 2.0], [1.5]][:n_out]
    ll = chi.LogLikelihood(mech, ems, obs, times)
    names = ll.get_parameter_names()
    n = ll.n_parameters()
    ok = len(names) == n and len(set(names)) == n
    ok = ok and n == n_mech + sum(e.n_parameters() for e in ems)
    fixed = {names[i]: 0.9 for i in range(n) if (fixmask >> i) & 1}
    if len(fixed) < n:
        ll.fix_parameters(fixed)
        names2 = ll.get_parameter_names()
        n2 = ll.n_parameters()
        ok = ok and n2 == n - len(fixed) and len(names2) == n2
        ok = ok and names2 == [x for x in names if x not in fixed]
        x = np.full(n2, 0.9)
        score, sens = ll.evaluateS1(x)
        ok = ok and np.shape(sens) == (n2,)
        # outside the support of an error parameter (score -inf) the
        # gradient still has one entry per parameter
        for j in range(n2):
            if names2[j] in names[n_mech:]:
                xb = x.copy()
                xb[j] = -0.5
                sb, gb = ll.evaluateS1(xb)
                ok = ok and np.shape(gb) == (n2,)
        ok = ok and len(ll.compute_pointwise_ll(x)) == sum(
            len(o) for o in obs)
        pm = chi.PredictiveModel(mech, ems)
        ok = ok and pm.n_parameters() == n == len(pm.get_parameter_names())
        pm.fix_parameters(fixed)
        ok = ok and pm.n_parameters() == n2 == len(pm.get_parameter_names())
    # release everything again after a gradient evaluation (sensitivities
    # are on at that moment): count, names and gradient length are back to n
    if fixed and len(fixed) < n:
        ll.evaluateS1(np.full(n - len(fixed), 0.9))
        ll.fix_parameters({k_: None for k_ in fixed})
        ok = ok and ll.n_parameters() == n == len(ll.get_parameter_names())
        sc, gr = ll.evaluateS1(np.full(n, 0.9))
        ok = ok and np.shape(gr) == (n,)
    # the same error-model *instance* handed in for every output: distinct
    # parameters still carry distinct names, in output order
    if n_out == 2 and e1 == e2:
        shared = _error_model(e1)
        for obj in (chi.PredictiveModel(Toy(n_mech, 2), [shared, shared]),
                    chi.LogLikelihood(Toy(n_mech, 2), [shared, shared],
                                      [[1.5, 2.5], [2.0]],
                                      [[1.0, 2.0], [1.5]]),
                    chi.ProblemModellingController(
                        Toy(n_mech, 2), [shared, shared])):
            nm = obj.get_parameter_names()
            cnt = obj.get_n_parameters() if hasattr(
                obj, 'get_n_parameters') else obj.n_parameters()
            ok = ok and len(nm) == cnt == n_mech + 2 * shared.n_parameters()
            ok = ok and len(set(nm)) == len(nm)
            k_ = shared.n_parameters()
            ok = ok and all('out0' in x for x in nm[n_mech:n_mech + k_])
            ok = ok and all('out1' in x for x in nm[n_mech + k_:])
    return bool(ok)


@concrete
def check_error_model(e: int, n_obs: int, n_mech: int, bad: int) -> bool:
    em = _error_model(e)
    n = em.n_parameters()
    ok = len(em.get_parameter_names()) == n
    par = np.full(n, 0.7)
    if bad:
        par[(bad - 1) % n] = -0.3
    yb = np.linspace(1.0, 2.0, n_obs)
    y = np.linspace(1.2, 1.9, n_obs)
    S = np.ones((n_obs, n_mech))
    score, sens = em.compute_sensitivities(par, yb, S, y)
    ok = ok and np.shape(sens) == (n_mech + n,)
    ok = ok and len(em.compute_pointwise_ll(par, yb, y)) == n_obs or bool(bad)
    red = chi.ReducedErrorModel(_error_model(e))
    if n > 1:
        red.fix_parameters({red.get_parameter_names()[0]: 0.7})
        p2 = np.full(n - 1, -0.3 if bad else 0.7)
        score, sens = red.compute_sensitivities(p2, yb, S, y)
        ok = ok and np.shape(sens) == (n_mech + n - 1,)
        ok = ok and red.n_parameters() == n - 1 == len(
            red.get_parameter_names())
    return bool(ok)


@concrete
def check_covariate(kind: int, n_dim: int, n_cov: int, selmask: int,
                    n_ids: int) -> bool:
    base = _make(kind, n_dim, n_ids)
    m = chi.CovariatePopulationModel(
        base, chi.LinearCovariateModel(n_cov=n_cov))
    n_pop = base.n_parameters()
    P = n_pop // n_dim
    ok = m.n_parameters() == len(m.get_parameter_names()) == \
        n_pop * (1 + n_cov)
    grid = [[p, d] for p in range(P) for d in range(n_dim)]
    sel = [g for i, g in enumerate(grid) if (selmask >> i) & 1]
    if sel:
        m.set_population_parameters(sel)
        names = m.get_parameter_names()
        ok = ok and m.n_parameters() == len(names) == \
            n_pop + len(sel) * n_cov
        ok = ok and len(set(names)) == len(names)
        nb, nt = m.n_hierarchical_parameters(n_ids)
        ok = ok and nt == m.n_parameters()
    ok = ok and _names_stable(m)
    comp = chi.ComposedPopulationModel([m, chi.PooledModel()])
    ok = ok and _names_stable(comp) and _names_stable(m)
    return bool(ok)


@concrete
def check_filter_posterior(k1: int, k2: int, n_samples: int, n_out: int,
                           n_times: int, sigma_fixed: int) -> bool:
    import pints
    # (the second sub-model is two-dimensional for half of the time-point
    # settings: multi-dimensional pooled / heterogeneous sub-models included)
    models = [_make(k1, 1, n_samples), _make(k2, 1 + n_times % 2, n_samples)]
    pop = chi.ComposedPopulationModel(models)
    mech = Toy(2 + n_times % 2, n_out)
    meas = np.arange(2 * n_out * n_times, dtype=float).reshape(
        2, n_out, n_times) + 1.0
    filt = chi.GaussianFilter(meas)
    times = [2.0, 1.0, 3.5][:n_times]
    pop.set_n_ids(n_samples)
    n_top = pop.n_parameters() + (0 if sigma_fixed else n_out)
    prior = pints.ComposedLogPrior(*[pints.UniformLogPrior(0, 5)] * n_top)
    post = chi.PopulationFilterLogPosterior(
        filt, times, mech, pop, prior,
        sigma=[0.5] * n_out if sigma_fixed else None, n_samples=n_samples)
    n = post.n_parameters()
    names = post.get_parameter_names()
    ids = post.get_id()
    ok = len(names) == n and len(ids) == n
    ok = ok and post.n_parameters(exclude_bottom_level=True) == n_top
    ok = ok and all(i is None for i in ids[:n_top])
    ok = ok and all(i is not None for i in ids[n_top:])
    ok = ok and len(set(post.get_parameter_names(include_ids=True))) == n
    x = np.full(n, 0.7)
    score, sens = post.evaluateS1(x)
    ok = ok and np.shape(sens) == (n,)
    return bool(ok)


def _mech_consistent(m) -> bool:
    """counts, names and what the simulator holds agree"""
    names = m.parameters()
    n = m.n_parameters()
    ok = len(names) == n and len(set(names)) == n
    sm = m._simulator._model
    n_sim = sm.count_states() + sum(
        1 for v in sm.variables(const=True) if v.is_literal())
    ok = ok and n == n_sim
    outs = m.outputs()
    ok = ok and m.n_outputs() == len(outs) and len(set(outs)) == len(outs)
    return bool(ok)


@concrete
def check_mechanistic(model: int, h1: int, h2: int, h3: int,
                      outsel: int) -> bool:
    """SBML-backed models under histories of set_administration (0 none,
    1 direct, 2 indirect) and set_outputs: counts and names follow the model
    the simulator holds, and composites follow the mechanistic model.  The
    solver is the recording stand-in of the engine (sundials is absent);
    nothing is simulated."""
    import os as _os
    import sys as _sys
    root = _os.path.dirname(_os.path.dirname(_os.path.abspath(__file__)))
    if root not in _sys.path:
        _sys.path.insert(0, root)
    import chi.library
    import chi._mechanistic_models as mmod
    from chisym.facade_myokit import MyokitFacade
    saved = mmod.myokit
    mmod.myokit = MyokitFacade()
    try:
        lib = chi.library.ModelLibrary()
        m = [lib.one_compartment_pk_model,
             lib.erlotinib_tumour_growth_inhibition_model][model]()
        ok = _mech_consistent(m)
        comp = 'central'
        for h in (h1, h2, h3):
            if h == 1:
                m.set_administration(comp, direct=True)
            elif h == 2:
                m.set_administration(comp, direct=False)
            if outsel == 1:
                m.set_outputs([m.outputs()[0]])
            elif outsel == 2:
                m.set_outputs(m.outputs()[::-1])
            ok = ok and _mech_consistent(m)
            c = m.copy()
            ok = ok and _mech_consistent(c)
            ok = ok and c.parameters() == m.parameters()
        n = m.n_parameters()
        n_out = m.n_outputs()
        ems = [chi.GaussianErrorModel() for _ in range(n_out)]
        ll = chi.LogLikelihood(m, ems, [[1.5, 2.5]] * n_out,
                               [[1.0, 2.0]] * n_out)
        ok = ok and ll.n_parameters() == n + n_out == len(
            ll.get_parameter_names())
        ok = ok and ll.get_parameter_names()[:n] == m.parameters()
        pm = chi.PredictiveModel(m, ems)
        ok = ok and pm.n_parameters() == n + n_out == len(
            pm.get_parameter_names())
        r = chi.ReducedMechanisticModel(m)
        r.fix_parameters({m.parameters()[0]: 1.0})
        ok = ok and r.n_parameters() == n - 1 == len(r.parameters())
    finally:
        mmod.myokit = saved
    return bool(ok)


@concrete
def check_nested(k1: int, k2: int, k3: int, n_ids: int, wrap: int) -> bool:
    """a composition nested in a composition (optionally behind a
    ReducedPopulationModel with nothing fixed) describes the same parameter
    vector as the flat composition of the same sub-models: counts, names,
    IDs, and the value of a hierarchical likelihood at a vector of the
    reported length"""
    def subs():
        ms = [_make(k1, 1, n_ids), _make(k2, 1, n_ids), _make(k3, 1, n_ids)]
        for m_ in ms:
            m_.set_n_ids(n_ids)
        return ms
    a = subs()
    inner = chi.ComposedPopulationModel(a[1:])
    if wrap:
        inner = chi.ReducedPopulationModel(inner)
    nested = chi.ComposedPopulationModel([a[0], inner])
    flat = chi.ComposedPopulationModel(subs())
    mech = Toy(2, 1)

    def hll(pop):
        lls = []
        for i in range(n_ids):
            lls.append(chi.LogLikelihood(
                mech, chi.GaussianErrorModel(), [1.0 + i, 2.0],
                [1.0, 2.0 + i]))
        pop.set_dim_names(lls[0].get_parameter_names())
        return chi.HierarchicalLogLikelihood(lls, pop)
    hn, hf = hll(nested), hll(flat)
    ok = nested.n_parameters() == flat.n_parameters()
    ok = ok and nested.get_parameter_names() == flat.get_parameter_names()
    ok = ok and nested.n_hierarchical_parameters(n_ids) == \
        flat.n_hierarchical_parameters(n_ids)
    n = hn.n_parameters()
    ok = ok and n == hf.n_parameters()
    names = hn.get_parameter_names()
    ok = ok and len(names) == n and len(hn.get_id()) == n
    ok = ok and names == hf.get_parameter_names()
    ok = ok and hn.get_id() == hf.get_id()
    ok = ok and len(hn.get_parameter_names(include_ids=True)) == n
    x = 0.6 + 0.05 * np.arange(n)
    vn, vf = hn(x), hf(x)
    ok = ok and (vn == vf or abs(vn - vf) <= 1e-9 * (1 + abs(vf)))
    # gradients: one entry per reported parameter, the same as for the flat
    # composition (reduced form of the population model and likelihood)
    sn, gn = hn.evaluateS1(x)
    sf, gf = hf.evaluateS1(x)
    ok = ok and np.shape(gn) == (n,) == np.shape(gf)
    if np.isfinite(vf):
        ok = ok and bool(np.allclose(gn, gf, rtol=1e-9, atol=1e-12,
                                     equal_nan=True))
    return bool(ok)
